#!/venv/bin/python
"""For every mutants/*.patch: do the pinned tests still pass with it? Writes mutants/BASELINE_STATUS.json."""
import glob, json, os, subprocess, tempfile, shutil
here = os.path.dirname(os.path.dirname(os.path.abspath(__file__)))
out = {}
for patch in sorted(glob.glob(os.path.join(here, 'mutants', '*.patch'))):
    tmp = tempfile.mkdtemp(prefix='mb_'); tree = os.path.join(tmp, 'r')
    try:
        subprocess.check_call(['git', '-C', '/repo', 'worktree', 'add', '-q', '--detach', tree, 'HEAD'])
        if subprocess.call(['git', '-C', tree, 'apply', patch]):
            out[os.path.basename(patch)] = {'stale': True}
            continue
        r = subprocess.run([os.path.join(here, 'tools', 'baseline.py'), tree], capture_output=True, text=True)
        out[os.path.basename(patch)] = {'pinned_tests_pass': r.returncode == 0, 'detail': r.stdout.strip().splitlines()[:4]}
        print(os.path.basename(patch), r.returncode == 0, flush=True)
    finally:
        subprocess.run(['git', '-C', '/repo', 'worktree', 'remove', '--force', tree]); shutil.rmtree(tmp, ignore_errors=True)
json.dump(out, open(os.path.join(here, 'mutants', 'BASELINE_STATUS.json'), 'w'), indent=1)
