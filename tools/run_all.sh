#!/bin/sh
# tools/run_all.sh <tier> [seed]  - run every registered check once, print one summary line each (plus violations)
tier=${1:-quick}; seed=${2:-1}
cd "$(dirname "$0")/.."
for p in C01 C02 C03 C04 C05 C06 C07 C08 C09 C10 C11 C12 C13 C14 C15 C16 C17 C18 C19 C20; do
  start=$(date +%s)
  VERIF_SEED=$seed ./check $p $tier 2>&1 | grep -E "^  C|VIOLATION|HARNESS|seed=" | cut -c1-400
  echo "   [$p exit=$? took $(( $(date +%s) - start ))s]"
done
