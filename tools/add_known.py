#!/usr/bin/env python3
"""tools/add_known.py <replay.json> <what...>  - append a known finding (status known) with the replay's minimal case as canary."""
import json, sys
r = json.load(open(sys.argv[1]))
p = '/verif/known_findings.json'
d = json.load(open(p))
sig = r['signature']
if any(e['property'] == r['property'] and e['signature'] == sig for e in d['findings']):
    print('already listed', sig); sys.exit(0)
d['findings'].append({'property': r['property'], 'signature': sig, 'status': 'known', 'what': ' '.join(sys.argv[2:]),
                      'example_message': r['message'][:400], 'canary': r['case']})
json.dump(d, open(p, 'w'), indent=1)
print('added', sig)
