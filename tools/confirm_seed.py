#!/venv/bin/python
"""tools/confirm_seed.py <ID> <k> [check-ID]: confirm a sub-agent's seeded change in its scratch worktree, run our check against it,
and store it under seeded/<ID>-<k>/ (patch.diff, demo.py, notes.txt, meta.json)."""
import json, os, shutil, subprocess, sys
pid, k = sys.argv[1], sys.argv[2]
check_id = sys.argv[3] if len(sys.argv) > 3 else pid
tree = '/tmp/seed/%s' % pid
src = '%s/_out/%s' % (tree, k)
here = os.path.dirname(os.path.dirname(os.path.abspath(__file__)))
def run(cmd, **kw):
    return subprocess.run(cmd, capture_output=True, text=True, **kw)
run(['git', '-C', tree, 'checkout', '--', 'slimta'])
meta = {'property': check_id, 'seeded_for': pid, 'source': 'independent sub-agent given only the property text and a scratch worktree'}
r = run(['/venv/bin/python', '%s/demo.py' % src], cwd=tree, env=dict(os.environ, PYTHONPATH=tree)); meta['demo_clean_exit'] = r.returncode
a = run(['git', '-C', tree, 'apply', '%s/patch.diff' % src]); assert a.returncode == 0, a.stderr
r = run(['/venv/bin/python', '%s/demo.py' % src], cwd=tree, env=dict(os.environ, PYTHONPATH=tree)); meta['demo_patched_exit'] = r.returncode
b = run([os.path.join(here, 'tools', 'baseline.py'), tree]); meta['existing_tests_with_patch'] = b.stdout.strip().splitlines()[0] if b.stdout else b.stderr[-200:]
meta['existing_tests_ok'] = b.returncode == 0
run(['git', '-C', tree, 'checkout', '--', 'slimta'])
t = run([os.path.join(here, 'tools', 'try_patch.py'), '%s/patch.diff' % src, check_id])
meta['check_cmd'] = './check %s quick (against a scratch copy with patch applied: tools/try_patch.py)' % check_id
meta['check_exit'] = t.returncode
meta['check_signatures'] = sorted(set(l.strip().split(' ')[0] for l in t.stdout.splitlines() if l.startswith('  C')))
meta['caught'] = t.returncode == 1
meta['needs'] = open('%s/notes.txt' % src).read()
ok = meta['demo_clean_exit'] == 0 and meta['demo_patched_exit'] != 0 and meta['existing_tests_ok']
meta['confirmed'] = ok
print(json.dumps({k_: v for k_, v in meta.items() if k_ != 'needs'}, indent=1))
if ok:
    dst = os.path.join(here, 'seeded', '%s-%s%s' % (pid, os.environ.get('SEED_ROUND', ''), k))
    os.makedirs(dst, exist_ok=True)
    for f in ('patch.diff', 'demo.py', 'notes.txt'):
        shutil.copy(os.path.join(src, f), dst)
    json.dump(meta, open(os.path.join(dst, 'meta.json'), 'w'), indent=1)
