#!/venv/bin/python
"""Regenerates MANIFEST.json from the table below (keeps it schema-valid)."""
import json, os, sys
HERE = os.path.dirname(os.path.dirname(os.path.abspath(__file__)))
sys.path.insert(0, HERE)
from vf.registry import CHECKS, NOT_APPLICABLE, ENGINES, FIX_COMMITS

props = [json.loads(l) for l in open(os.path.join(HERE, 'properties.jsonl'))]
ids = [p['id'] for p in props]
checks = []
for pid in ids:
    c = CHECKS.get(pid)
    if not c:
        continue
    checks.append({
        'property_id': pid,
        'quick_cmd': './check %s quick' % pid,
        'thorough_cmd': './check %s thorough' % pid,
        'evidence_file': 'evidence/%s.json' % pid,
        'replay_cmd_template': './check --replay {path}',
        'engine': c['engine'],
        'level_claimed': {'category': c['level'], 'text': c['text'], 'design_ref': c['design_ref']},
        'level_note': c['note'],
        'technique': c['technique'],
    })
na = [{'property_id': pid, 'reason': NOT_APPLICABLE.get(pid, 'check not built yet (work in progress, see DESIGN.md section 6)')}
      for pid in ids if pid not in CHECKS]
manifest = {
    'version': 1,
    'setup_cmd': './setup.sh',
    'hooks': {
        'guard': 'SLIMTA_VERIF',
        'enable': 'none needed: no source hooks; checks import /repo working tree directly (pure Python) and substitute collaborators from the harness side',
        'baseline_off_cmd': 'cd /repo && /venv/bin/python -m pytest -ra -q -p no:cacheprovider --timeout=900 --continue-on-collection-errors',
        'source_commits': [],
        'add_only': True,
    },
    'engines': ENGINES,
    'checks': checks,
    'notes': 'Property-based testing / fuzzing only. Genuine defects repaired in /repo by fix: commits: %s. See known_findings.json and DESIGN.md.' % ', '.join(FIX_COMMITS),
    'not_applicable': na,
}
with open(os.path.join(HERE, 'MANIFEST.json'), 'w') as f:
    json.dump(manifest, f, indent=1)
import subprocess
subprocess.check_call(['python3-vt', '-c', 'import json,jsonschema; jsonschema.validate(json.load(open("%s/MANIFEST.json")), json.load(open("/root/.vp/MANIFEST.schema.json")))' % HERE])
print('MANIFEST ok: %d checks, %d not claimed' % (len(checks), len(na)))
