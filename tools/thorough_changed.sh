#!/bin/sh
cd "$(dirname "$0")/.."
for p in C08 C19 C11 C06 C13 C16 C10 C15 C09 C12 C04 C03 C01 C07; do
  start=$(date +%s)
  VERIF_SEED=3 ./check $p thorough 2>&1 | grep -E "^  C|VIOLATION|HARNESS|UNCONF|seed=" | cut -c1-400
  echo "   [$p exit=$? took $(( $(date +%s) - start ))s]"
done
