#!/venv/bin/python
"""tools/try_patch.py <patch.diff> <ID> [tier]  - run a check against a scratch copy of /repo with the patch applied.
Exit status: that of the check (1 = the change was detected)."""
import os, subprocess, sys, tempfile, shutil
patch, pid = os.path.abspath(sys.argv[1]), sys.argv[2]
tier = sys.argv[3] if len(sys.argv) > 3 else 'quick'
tmp = tempfile.mkdtemp(prefix='vt_')
tree = os.path.join(tmp, 'repo')
try:
    subprocess.check_call(['git', '-C', '/repo', 'worktree', 'add', '-q', '--detach', tree, 'HEAD'])
    # carry over uncommitted changes of /repo's working tree
    diff = subprocess.run(['git', '-C', '/repo', 'diff', 'HEAD'], capture_output=True).stdout
    if diff.strip():
        subprocess.run(['git', '-C', tree, 'apply'], input=diff, check=True)
    subprocess.check_call(['git', '-C', tree, 'apply', patch])
    env = dict(os.environ, VERIF_REPO=tree, VERIF_EVIDENCE_DIR=os.path.join(tmp, 'ev'), VERIF_REPLAY_DIR=os.path.join(tmp, 'rp'),
               VERIF_SHRINK_S=os.environ.get('VERIF_SHRINK_S', '5'))
    here = os.path.dirname(os.path.dirname(os.path.abspath(__file__)))
    r = subprocess.run([os.path.join(here, 'check'), pid, tier], env=env, capture_output=True, text=True)
    lines = [l for l in (r.stdout + r.stderr).splitlines() if 'pkg_resources' not in l and 'UserWarning' not in l]
    print('\n'.join(l[:300] for l in lines[-12:]))
    print('exit', r.returncode)
    sys.exit(r.returncode)
finally:
    subprocess.run(['git', '-C', '/repo', 'worktree', 'remove', '--force', tree])
    shutil.rmtree(tmp, ignore_errors=True)
