#!/venv/bin/python
"""Run the repository's pinned test command and compare with BASELINE.json's stable_pass."""
import json, os, subprocess, sys, tempfile
import xml.etree.ElementTree as ET
repo = sys.argv[1] if len(sys.argv) > 1 else '/repo'
base = json.load(open('/root/.vp/BASELINE.json'))
fd, out = tempfile.mkstemp(suffix='.xml'); os.close(fd)
cmd = ['/venv/bin/python', '-m', 'pytest', '-ra', '-q', '-p', 'no:cacheprovider', '--timeout=900',
       '--continue-on-collection-errors', '--junitxml=' + out]
env = dict(os.environ); env.pop('SLIMTA_VERIF', None)
subprocess.run(cmd, cwd=repo, stdout=subprocess.DEVNULL, stderr=subprocess.DEVNULL, env=env)
passed = set()
for tc in ET.parse(out).getroot().iter('testcase'):
    if not any(c.tag in ('failure', 'error', 'skipped') for c in tc):
        passed.add('%s::%s' % (tc.get('classname'), tc.get('name')))
os.unlink(out)
missing = [t for t in base['stable_pass'] if t not in passed]
print('stable_pass %d, passing now %d, missing %d' % (len(base['stable_pass']), len(passed), len(missing)))
for m in missing: print('  MISSING', m)
sys.exit(1 if missing else 0)
