#!/usr/bin/env python3-vt
import json, sys, glob, jsonschema
s = json.load(open('/root/.vp/EVIDENCE.schema.json'))
for f in sorted(glob.glob('/verif/evidence/*.json')):
    jsonschema.validate(json.load(open(f)), s); print('ok', f)
