#!/venv/bin/python
"""tools/mkmutant.py <name> <file-relative-to-repo> <old> <new>  - create mutants/<name>.patch by textual replacement (must match once)."""
import os, subprocess, sys, tempfile, shutil
name, rel, old, new = sys.argv[1:5]
old = old.encode().decode('unicode_escape'); new = new.encode().decode('unicode_escape')
tmp = tempfile.mkdtemp(prefix='mm_')
try:
    tree = os.path.join(tmp, 'r')
    subprocess.check_call(['git', '-C', '/repo', 'worktree', 'add', '-q', '--detach', tree, 'HEAD'])
    p = os.path.join(tree, rel)
    s = open(p).read()
    if s.count(old) != 1:
        sys.exit('pattern occurs %d times in %s' % (s.count(old), rel))
    open(p, 'w').write(s.replace(old, new))
    subprocess.check_call(['/venv/bin/python', '-m', 'py_compile', p])
    diff = subprocess.run(['git', '-C', tree, 'diff'], capture_output=True, text=True).stdout
    here = os.path.dirname(os.path.dirname(os.path.abspath(__file__)))
    open(os.path.join(here, 'mutants', name + '.patch'), 'w').write(diff)
    print('wrote mutants/%s.patch' % name)
finally:
    subprocess.run(['git', '-C', '/repo', 'worktree', 'remove', '--force', tree])
    shutil.rmtree(tmp, ignore_errors=True)
