#!/bin/sh
# Offline setup: hypothesis into /venv if missing, atheris into /verif/.deps (optional, thorough tier only).
set -e
cd "$(dirname "$0")"
W=/opt/veriftools/wheels
if ! /venv/bin/python -c 'import hypothesis' 2>/dev/null; then
  /venv/bin/pip install -q --no-index --find-links $W hypothesis
fi
if ! PYTHONPATH=.deps /venv/bin/python -c 'import atheris' 2>/dev/null; then
  /venv/bin/pip install -q --no-index --find-links $W --target .deps atheris 2>/dev/null || echo "setup: atheris not installed (coverage-guided tier is skipped)"
fi
mkdir -p evidence replays
/venv/bin/python -c 'import hypothesis, gevent; print("setup ok: hypothesis", hypothesis.__version__)'
