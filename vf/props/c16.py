"""C16 - queue policies conserve recipients and content."""
import re
import itertools
from collections import Counter

from hypothesis import strategies as st

from vf import hyp

from slimta.envelope import Envelope
from slimta.queue import Queue, QueueStorage
from slimta.policy import QueuePolicy
from slimta.policy.split import RecipientSplit, RecipientDomainSplit
from slimta.policy.forward import Forward
from slimta.policy.headers import AddDateHeader, AddMessageIdHeader, AddReceivedHeader

ID = 'C16'
LEVEL = 'exploration'
RULE = ('Hypothesis: recipient lists of 0..8 (duplicates, mixed-case domains, no "@", empty domain) x policy chains of length '
        '0..6 with repetition over RecipientSplit, RecipientDomainSplit, Forward (0..3 literal/regex rules), AddDateHeader, '
        'AddMessageIdHeader, AddReceivedHeader and a harness policy returning its input among its outputs, run through '
        'Queue.enqueue with a recording store. non-trivial = >=2 output envelopes and (a Forward hit or a header policy); '
        'distinct = distinct (recipients, chain, headers)')
ASSUMPTIONS = ['a forwarding rule that rewrites a recipient to the empty string is gray (either skipped or left unchanged)',
               'recipients are str, as the SMTP edge produces them']


class RecordingStore(QueueStorage):
    def __init__(self):
        self.written = []

    def write(self, envelope, timestamp):
        self.written.append(envelope)
        return 'id%d' % len(self.written)


class KeepFirstSplit(QueuePolicy):
    """Harness policy: returns its *input* envelope among its outputs."""

    def apply(self, envelope):
        if len(envelope.recipients) < 2:
            return
        rest = envelope.copy(list(envelope.recipients[1:]))
        del envelope.recipients[1:]
        return [envelope, rest]


def make_policy(spec):
    kind = spec[0]
    if kind == 'split':
        return RecipientSplit()
    if kind == 'domsplit':
        return RecipientDomainSplit()
    if kind == 'date':
        return AddDateHeader()
    if kind == 'msgid':
        return AddMessageIdHeader('verif.host')
    if kind == 'received':
        return AddReceivedHeader()
    if kind == 'keepfirst':
        return KeepFirstSplit()
    if kind == 'forward':
        f = Forward()
        for pattern, repl in spec[1]:
            f.add_mapping(pattern, repl)
        return f
    raise ValueError(kind)


def ref_forward(rcpt, rules):
    """Independent first-match rewriter -> set of acceptable results."""
    acceptable = None
    for pattern, repl in rules:
        new, n = re.subn(pattern, repl, rcpt)
        if n > 0:
            if new:
                if acceptable is None:
                    return {new}
                acceptable.add(new)
                return acceptable
            # rewritten to the empty string: gray (skip the rule, or stop and keep the recipient)
            if acceptable is None:
                acceptable = {rcpt}
    return acceptable if acceptable is not None else {rcpt}


def multiset_matches(actual, options):
    """Is there an assignment of one acceptable value per original recipient equal (as multiset) to actual?"""
    fixed = Counter()
    free = []
    for opt in options:
        if len(opt) == 1:
            fixed[next(iter(opt))] += 1
        else:
            free.append(sorted(opt))
    actual = Counter(actual)
    if len(free) > 8:
        return True
    for combo in itertools.product(*free):
        c = fixed.copy()
        c.update(combo)
        if c == actual:
            return True
    return False


def header_items(env):
    return [(k, str(v)) for k, v in env.headers.items()]


def judge(rcpts, chain, hdr_lines, body, sender):
    data = ''.join(h + '\r\n' for h in hdr_lines).encode('utf-8', 'surrogateescape') + b'\r\n' + body
    env = Envelope(sender, list(rcpts))
    env.parse(data)
    env.receiver = 'verif.edge'
    env.timestamp = 1234567890.0
    env.client = {'name': 'c', 'ip': '1.2.3.4', 'host': 'h', 'protocol': 'ESMTP'}
    orig_items = header_items(env)
    store = RecordingStore()
    q = Queue(store)
    try:
        made = {}
        for spec in chain:
            # the same policy given twice in a chain is the same object registered twice
            if spec not in made:
                made[spec] = make_policy(spec)
            q.add_policy(made[spec])
        results = q.enqueue(env)
    except Exception as e:
        return [('C16:exception:%s' % type(e).__name__, '%r %r: %r' % (rcpts, chain, e))], 0, False
    outs = store.written
    out = []
    if [e for e, _ in results] != outs or any(isinstance(i, BaseException) for _, i in results):
        out.append(('C16:results-mismatch', '%r' % (results,)))
    # recipients: multiset conservation through the chain's Forward policies
    options = [{r} for r in rcpts]
    hit = False
    for spec in chain:
        if spec[0] == 'forward':
            new_opts = []
            for opt in options:
                acc = set()
                for r in opt:
                    acc |= ref_forward(r, spec[1])
                if acc != opt:
                    hit = True
                new_opts.append(acc)
            options = new_opts
    actual = [r for e in outs for r in e.recipients]
    if not multiset_matches(actual, options):
        out.append(('C16:recipients-not-conserved',
                    'rcpts=%r chain=%r written=%r' % (rcpts, chain, [e.recipients for e in outs])))
    if rcpts and any(not e.recipients for e in outs):
        out.append(('C16:empty-envelope-written', 'rcpts=%r chain=%r' % (rcpts, chain)))
    n_received = sum(1 for s in chain if s[0] == 'received')
    has_date = any(k.lower() == 'date' for k, _ in orig_items)
    has_mid = any(k.lower() == 'message-id' for k, _ in orig_items)
    add_date = any(s[0] == 'date' for s in chain)
    add_mid = any(s[0] == 'msgid' for s in chain)
    for e in outs:
        if e.sender != sender:
            out.append(('C16:sender-changed', '%r' % e.sender))
        if e.message != body:
            out.append(('C16:body-changed', '%r -> %r' % (body[:40], (e.message or b'')[:40])))
        items = header_items(e)
        recv_new = items[:n_received]
        if any(k != 'Received' for k, _ in recv_new) or len(recv_new) != n_received:
            out.append(('C16:received-not-first', 'chain=%r headers=%r' % (chain, items[:4])))
        rest = items[n_received:]
        added = [(k, v) for (k, v) in rest if (k, v) not in orig_items]
        kept = [(k, v) for (k, v) in rest if (k, v) in orig_items]
        if kept != orig_items:
            out.append(('C16:original-headers-changed', 'orig=%r now=%r' % (orig_items, rest)))
        exp_added = sorted((['Date'] if add_date and not has_date else []) +
                           (['Message-Id'] if add_mid and not has_mid else []))
        if sorted(k for k, _ in added) != exp_added:
            out.append(('C16:date-or-message-id-policy',
                        'chain=%r had_date=%s had_mid=%s added=%r' % (chain, has_date, has_mid, added)))
    # aliasing: no two outputs share mutable state
    for a, b in itertools.combinations(range(len(outs)), 2):
        ea, eb = outs[a], outs[b]
        if ea is eb or ea.recipients is eb.recipients or ea.headers is eb.headers:
            out.append(('C16:shared-state', 'outputs %d and %d share an object (chain=%r)' % (a, b, chain)))
            break
    if len(outs) >= 2 and not out:
        snap = [(list(e.recipients), header_items(e)) for e in outs]
        outs[0].recipients.append('mutant@x')
        outs[0].headers['X-Mutant'] = '1'
        outs[0].prepend_header('X-First', '1')
        for i in range(1, len(outs)):
            if (list(outs[i].recipients), header_items(outs[i])) != snap[i]:
                out.append(('C16:shared-state', 'mutating output 0 changed output %d (chain=%r)' % (i, chain)))
                break
    nt = len(outs) >= 2 and (hit or any(s[0] in ('date', 'msgid', 'received') for s in chain))
    return out, len(outs), nt


# -- generators -----------------------------------------------------------------

_local = st.sampled_from(['a', 'b', 'bob', 'alice', 'x.y', 'root', '"q q"', 'A'])
_domain = st.sampled_from(['example.com', 'Example.COM', 'example.org', 'z.net', 'Z.NET', 'sub.example.com', ''])
_rcpt = st.one_of(st.builds(lambda l, d: l + '@' + d, _local, _domain), _local,
                  st.sampled_from(['a@b@c.org', '@', 'nodomain', 'é@example.com']))

_rule = st.sampled_from([
    (r'^a@example\.com$', 'aa@forward.net'), (r'@example\.com$', '@example.org'), (r'^bob@', 'robert@'),
    (r'example', 'sample'), (r'^(.*)@z\.net$', r'\1@zz.net'), (r'^nomatch$', 'x'), (r'^alice@.*$', ''),
    (r'(?i)@EXAMPLE\.COM$', '@lower.example'), (r'^root$', 'root@localhost'), (r'^.*$', 'catchall@example.com'),
    (r'b', 'B'), (r'@$', '@fixed.example'), (r'^', 'archive+'), (r'$', '.suffix'), (r'x*$', '-'), (r'^bob@.*$', ''), (r'^.*@example\.org$', ''),
])
_policy = st.one_of(
    st.sampled_from([('split',), ('domsplit',), ('date',), ('msgid',), ('received',), ('keepfirst',)]),
    st.lists(_rule, max_size=3).map(lambda rules: ('forward', tuple(rules))))
_hdrs = st.lists(st.sampled_from(['Subject: test', 'From: a@b', 'To: c@d', 'Date: Mon, 01 Jan 2001 00:00:00 +0000',
                                  'Message-Id: <orig@id>', 'Received: from x by y; date', 'X-Dup: 1', 'X-Dup: 2',
                                  'date: lower-case name', 'MESSAGE-ID: <upper@id>', 'X-8bit: \udce9',
                                  # present but without a value: still present
                                  'Date:', 'DATE: ', 'Message-Id:']),
                 min_size=1, max_size=6, unique=True)
@st.composite
def _chain(draw):
    chain = draw(st.lists(_policy, max_size=6))
    if chain and draw(st.integers(0, 2)) == 0:
        # a policy that appears twice (e.g. two forwarding hops with the same rule set, two Received headers)
        chain.insert(draw(st.integers(0, len(chain))), chain[draw(st.integers(0, len(chain) - 1))])
    return chain


_case = st.tuples(st.lists(_rcpt, max_size=8), _chain(), _hdrs,
                  st.sampled_from([b'', b'body\r\n', b'\r\nleading blank\r\n', b'\xff\x00 8bit\r\n.\r\n']),
                  st.sampled_from(['sender@example.com', '', 'S@X']))


def run_shard(ctx):
    def one(v):
        rcpts, chain, hdrs, body, sender = v
        f, nouts, nt = judge(rcpts, chain, hdrs, body, sender)
        labels = ['outs=%d' % min(nouts, 4)] + ['has-' + s[0] for s in set(chain)]
        ctx.record((tuple(rcpts), tuple(chain), tuple(hdrs), body, sender), nt, labels=labels,
                   case=lambda: {'rcpts': rcpts, 'chain': [list(s) if s[0] != 'forward' else ['forward', [list(r) for r in s[1]]]
                                                          for s in chain],
                                 'headers': [h.encode('utf-8', 'surrogateescape').hex() for h in hdrs],
                                 'body': body.hex(), 'sender': sender}, failures=f)
    hyp.drive(ctx, _case, one, ctx.n(20000, 300000))


def replay(case):
    chain = []
    for s in case.get('chain', []):
        if not s:
            continue
        if s[0] == 'forward':
            rules = []
            for r in (s[1] if len(s) > 1 else []):
                if len(r) == 2:
                    try:
                        re.subn(r[0], r[1], 'probe@example.com')
                        rules.append((r[0], r[1]))
                    except re.error:
                        return []
            chain.append(('forward', tuple(rules)))
        elif s[0] in ('split', 'domsplit', 'date', 'msgid', 'received', 'keepfirst'):
            chain.append((s[0],))
    hdrs = [bytes.fromhex(h).decode('utf-8', 'surrogateescape') for h in case.get('headers', [])]
    hdrs = [h for h in hdrs if re.match(r'^[A-Za-z0-9-]+: \S', h)]
    if not hdrs:
        hdrs = ['Subject: x']
    f, _, _ = judge([str(r) for r in case.get('rcpts', [])], chain, hdrs, bytes.fromhex(case.get('body', '')),
                    case.get('sender', ''))
    return f
