"""C11 - a relay reports success only for recipients the next hop accepted."""
import os
import sys
import stat
import itertools
import tempfile

import gevent
from gevent.event import AsyncResult
from hypothesis import strategies as st

from vf import hyp
from vf.peers import kill_relay, StagePeer, StubClientContext, CONNECTION_FAULTS
from vf.transport import WouldBlockForever

from slimta.envelope import Envelope
from slimta.relay import RelayError, TransientRelayError, PermanentRelayError
from slimta.relay.smtp.static import StaticSmtpRelay, StaticLmtpRelay
from slimta.relay.pipe import PipeRelay, MaildropRelay, DovecotLdaRelay
from slimta.smtp.reply import Reply

ID = 'C11'
REALTIME = True      # runs on the wall clock: an unreproducible failure is re-run before it counts (see runner)
LEVEL = 'fault_enumeration'
RULE = ('fault enumeration over downstream scripts. SMTP/LMTP: real StaticSmtpRelay/StaticLmtpRelay against an in-memory scripted peer; '
        'exhaustive single-fault table: stage in {banner, EHLO (incl. 500->HELO), HELO, STARTTLS, EHLO2, AUTH, MAIL, RCPT1..3, DATA, '
        'end-of-data (per recipient for LMTP), RSET, QUIT} x outcome in {4xx, 5xx, malformed line, out-of-range code, disconnect, '
        'reset} x PIPELINING on/off x 1..3 recipients x {first message, reused connection}; Hypothesis for 2-3 simultaneous faults. '
        'Pipe: generated /bin/sh delivery programs (exit status x stdout/stderr shape) x per_recipient x {PipeRelay, MaildropRelay, '
        'DovecotLdaRelay}. HTTP: raw scripted HTTP peer (status x X-Smtp-Reply x disconnect). MX: stub resolver answers. '
        'non-trivial = a fault after >=1 accepted recipient or command, or a non-zero exit status / HTTP error; '
        'distinct = distinct case description')
ASSUMPTIONS = ['the reference decision: a recipient may be reported delivered only if no non-2xx outcome applies to it and the peer recorded '
               'it as accepted; a reported failure class must be the class of some applicable outcome (4xx/disconnect/malformed -> '
               'transient, 5xx -> permanent); with several applicable outcomes either class is accepted',
               'faults at RSET/QUIT do not concern a recipient whose result is already determined',
               'HTTP error status without X-Smtp-Reply: either error class (gray)']


def make_env(n, tag='m'):
    env = Envelope('sender@example.com', ['r%d@%s.example' % (i, tag) for i in range(n)])
    env.parse(('Subject: %s\r\nX-Tag: %s\r\n\r\nbody of %s\r\n' % (tag, tag, tag)).encode())
    return env


# =====================================================================================
# SMTP / LMTP
# =====================================================================================

class Raised(object):
    """Marks a value as raised (not returned) by Relay.attempt."""

    def __init__(self, exc):
        self.exc = exc


def classify_result(res, rcpts):
    """-> (dict rcpt -> 'ok' | 'temp' | 'perm', None) or (None, description of the contract violation)"""
    out = {}
    if isinstance(res, Raised):
        res = res.exc
        if isinstance(res, PermanentRelayError):
            return dict((r, 'perm') for r in rcpts), None
        if isinstance(res, TransientRelayError):
            return dict((r, 'temp') for r in rcpts), None
        return None, 'attempt raised %s: %r' % (type(res).__name__, res)
    if isinstance(res, BaseException) and not isinstance(res, RelayError):
        return None, 'attempt returned the exception object %r' % (res,)
    if res is None or isinstance(res, Reply):
        return dict((r, 'ok') for r in rcpts), None
    if isinstance(res, RelayError):
        return None, 'a %s instance was *returned* as the whole-message result' % type(res).__name__
    if isinstance(res, dict):
        if sorted(res.keys()) != sorted(rcpts):
            return None, 'per-recipient result keys %r differ from the recipients %r' % (sorted(res), sorted(rcpts))
        for r, v in res.items():
            if v is None or isinstance(v, Reply):
                if isinstance(v, Reply) and v.code and v.code[0] in '45':
                    return None, 'recipient %s mapped to an error Reply %r that is not a RelayError' % (r, v)
                out[r] = 'ok'
            elif isinstance(v, PermanentRelayError):
                out[r] = 'perm'
            elif isinstance(v, TransientRelayError):
                out[r] = 'temp'
            else:
                return None, 'recipient %s mapped to %r' % (r, v)
        return out, None
    return None, 'unexpected result %r' % (res,)


def run_smtp_case(case):
    lmtp = case['kind'] == 'lmtp'
    peers = []
    scripts = case['scripts']

    def creator(address):
        k = len(peers)
        script = scripts[k] if k < len(scripts) else {}
        exts = ['8BITMIME', 'ENHANCEDSTATUSCODES']
        if case.get('pipelining', True):
            exts.append('PIPELINING')
        if case.get('starttls'):
            exts.append('STARTTLS')
        if case.get('auth'):
            # 'auth' may name the mechanisms the peer advertises (e.g. one the SASL library does not know)
            exts.append('AUTH' if case['auth'] == '-' else 'AUTH ' + (case['auth'] if isinstance(case['auth'], str) else 'PLAIN LOGIN'))
        p = StagePeer(script, lmtp=lmtp, exts=exts, chunks=case.get('chunks'), multiline=case.get('multiline', False))
        peers.append(p)
        return p

    cls = StaticLmtpRelay if lmtp else StaticSmtpRelay
    relay = cls('peer.example', 24 if lmtp else 25, socket_creator=creator, context=StubClientContext(), ehlo_as='relay.example',
                tls_required=case.get('tls_required', False), credentials=('user', 'pass') if case.get('auth') else None,
                idle_timeout=(30 if case.get('reuse') else None))
    out = []
    nmsgs = 2 if case.get('reuse') else 1
    desc = repr(dict((k, v) for k, v in case.items()))
    nt = False
    try:
        for a in range(nmsgs):
            env = make_env(case['nrcpt'][a] if isinstance(case['nrcpt'], list) else case['nrcpt'], 'm%d' % a)
            if case.get('utf8_rcpt') is not None and case['utf8_rcpt'] < len(env.recipients):
                # an address that needs SMTPUTF8, which this peer does not offer
                env.recipients[case['utf8_rcpt']] = 'b\u00e9b\u00e9%d@m%d.example' % (case['utf8_rcpt'], a)
            if case.get('utf8_sender'):
                env.sender = 's\u00e9nder@example.com'
            dup = case.get('dup')
            if dup and max(dup) < len(env.recipients) and dup[0] != dup[1]:
                env.recipients[dup[0]] = env.recipients[dup[1]]         # the same mailbox named twice
            rcpts = list(env.recipients)
            marks = [len(p.log) for p in peers]
            got = AsyncResult()

            def go():
                try:
                    got.set(relay.attempt(env, 0))
                except BaseException as e:
                    got.set(Raised(e))
            g = gevent.spawn(go)
            g.join(timeout=10)
            if not got.ready():
                g.kill(block=False)
                out.append(('C11:attempt-never-returns:%s' % case['kind'], '%s: attempt #%d still blocked' % (desc, a)))
                break
            res = got.get()
            if isinstance(res, Raised) and isinstance(res.exc, WouldBlockForever):
                out.append(('C11:client-waits-for-a-reply-that-is-not-owed:%s' % case['kind'], '%s: attempt #%d' % (desc, a)))
                break
            verdicts, bad = classify_result(res, sorted(set(rcpts)) if len(set(rcpts)) < len(rcpts) else rcpts)
            if bad:
                kindsig = 'other-exception:%s' % type(res.exc).__name__ if isinstance(res, Raised) else 'malformed-result'
                out.append(('C11:%s:%s' % (kindsig, case['kind']), '%s: attempt #%d: %s' % (desc, a, bad)))
                break
            # what the downstream did during this attempt
            slices = []
            for k, p in enumerate(peers):
                start = marks[k] if k < len(marks) else 0
                slices.extend((k,) + e for e in p.log[start:])
            applies_all = []
            applies_rcpt = {}
            lm_accept_order = []
            for k, p in enumerate(peers):
                pass
            for (k, m, stage, outc) in slices:
                if outc == '2xx' or (len(outc) == 3 and outc.isdigit() and outc[0] == '2'):
                    continue            # positive completion (250, or 251 / 252 for a recipient)
                if stage in ('RSET', 'QUIT'):
                    continue
                cls_ = 'perm' if outc[:1] == '5' else 'temp'
                if stage == 'AUTH' and outc.startswith('334'):
                    # an exchange the client cannot complete: the attempt must fail, either class
                    applies_all.append((stage, outc, 'temp'))
                    applies_all.append((stage, outc, 'perm'))
                    continue
                if outc in CONNECTION_FAULTS:
                    applies_all.append((stage, outc, 'temp'))
                elif stage.startswith('RCPT'):
                    applies_rcpt.setdefault(int(stage[4:]), []).append((stage, outc, cls_))
                elif stage.startswith('EOD') and stage != 'EOD':
                    applies_rcpt.setdefault(('eod', int(stage[3:])), []).append((stage, outc, cls_))
                elif stage == 'STARTTLS':
                    if case.get('tls_required'):
                        applies_all.append((stage, outc, cls_))
                elif stage in ('EHLO', 'EHLO2') and outc == '500' and not lmtp:
                    continue
                else:
                    applies_all.append((stage, outc, cls_))
            if case.get('utf8_sender'):
                applies_all.append(('MAIL', 'sender needs SMTPUTF8', 'perm'))
                applies_all.append(('MAIL', 'sender needs SMTPUTF8', 'temp'))
            if case.get('utf8_rcpt') is not None and case['utf8_rcpt'] < len(rcpts):
                applies_rcpt.setdefault(case['utf8_rcpt'], []).extend([('RCPT', 'recipient needs SMTPUTF8', 'perm'),
                                                                        ('RCPT', 'recipient needs SMTPUTF8', 'temp')])
            if isinstance(case.get('auth'), str) and not set(case['auth'].split()) & {'PLAIN', 'LOGIN', 'CRAM-MD5'} and \
                    any(st_ in ('EHLO', 'LHLO', 'EHLO2') and o_ == '2xx' for (_, _, st_, o_) in slices):
                # nothing the client could use is on offer: the attempt cannot succeed
                applies_all.append(('AUTH', 'no usable mechanism', 'perm'))
                applies_all.append(('AUTH', 'no usable mechanism', 'temp'))
            greets = [st_ for (_, _, st_, o_) in slices if st_ in ('EHLO', 'EHLO2', 'HELO', 'LHLO', 'LHLO2') and o_ == '2xx']
            if case.get('auth') and greets and all(x == 'HELO' for x in greets):
                applies_all.append(('AUTH', 'not offered after HELO fallback', 'perm'))
            if applies_all or applies_rcpt:
                if any(o == '2xx' for (_, _, _, o) in slices):
                    nt = True
            # map LMTP end-of-data indexes to recipients: k-th recipient whose RCPT was accepted
            accepted_order = [i for i in range(len(rcpts)) if not applies_rcpt.get(i)]
            truth = set()
            for p in peers:
                for (m, sender, acc, data) in p.accepted_msgs:
                    if sender == env.sender and data.find(('X-Tag: m%d' % a).encode()) != -1:
                        truth.update(acc)
            def applicable(i):
                app = list(applies_all) + list(applies_rcpt.get(i, []))
                if i in accepted_order:
                    app += applies_rcpt.get(('eod', accepted_order.index(i)), [])
                return app
            for i, r in enumerate(rcpts):
                app = applicable(i)
                v = verdicts[r]
                positions = [x for x, other in enumerate(rcpts) if other == r]
                if len(positions) > 1:
                    # one mailbox named more than once gets one verdict: that of any of its occurrences is acceptable
                    apps = [applicable(x) for x in positions]
                    if v == 'ok' and any(not a_ for a_ in apps):
                        app = []
                    elif v != 'ok':
                        app = [o for a_ in apps for o in a_]
                if v == 'ok':
                    if app or r not in truth:
                        out.append(('C11:success-reported-without-acceptance:%s' % case['kind'],
                                    '%s: attempt #%d reports %s delivered; applicable outcomes %r; peer accepted %r'
                                    % (desc, a, r, app, sorted(truth))))
                        break
                else:
                    classes = set(c for _, _, c in app)
                    if not classes:
                        out.append(('C11:unexplained-failure:%s' % case['kind'],
                                    '%s: attempt #%d reports %s as %s although nothing went wrong for it (log %r)'
                                    % (desc, a, r, v, slices)))
                        break
                    if v not in classes:
                        rej = [x for x in range(len(rcpts)) if applies_rcpt.get(x)]
                        sig = 'wrong-failure-class'
                        rcls = set(c for x in rej for _, _, c in applies_rcpt[x])
                        if len(rej) == len(rcpts) and len(rcls) > 1:
                            sig = 'all-rcpts-rejected-mixed-class'
                        out.append(('C11:%s:%s' % (sig, case['kind']),
                                    '%s: attempt #%d reports %s as %s, applicable outcomes are %r' % (desc, a, r, v, app)))
                        break
            if out:
                break
    finally:
        kill_relay(relay)
        gevent.idle()
    return out, nt


STAGES_CONN = ['banner', 'EHLO', 'HELO', 'STARTTLS', 'EHLO2', 'AUTH']
STAGES_MSG = ['MAIL', 'RCPT0', 'RCPT1', 'RCPT2', 'DATA', 'EOD', 'EOD0', 'EOD1', 'EOD2', 'RSET', 'QUIT']
OUTCOMES = ['4xx', '5xx', '552', '421', 'malformed', 'badcode', 'disconnect', 'reset', '354', '150']


def odd_code_ok(stage, outc):
    """Replies of class 1xx / 3xx are only scripted where they decide about acceptance (MAIL, RCPT, end of data; 150 for DATA):
    elsewhere the protocol leaves open what they mean."""
    if outc not in ('354', '150'):
        return True
    st_ = stage.split(':')[-1]
    if st_ == 'DATA':
        return outc == '150'
    return st_ == 'MAIL' or st_.startswith('RCPT') or st_.startswith('EOD')


def smtp_table():
    for kind in ('smtp', 'lmtp'):
        for pipelining in (True, False):
            for n in (1, 2, 3):
                for stage in STAGES_CONN + STAGES_MSG:
                    if stage == 'HELO' and kind == 'lmtp':
                        continue
                    if stage == 'EOD' and kind == 'lmtp' or (stage.startswith('EOD') and stage != 'EOD' and kind == 'smtp'):
                        continue
                    if stage.startswith('RCPT') and int(stage[4:]) >= n:
                        continue
                    if stage.startswith('EOD') and stage != 'EOD' and int(stage[3:]) >= n:
                        continue
                    for outc in OUTCOMES:
                        if not odd_code_ok(stage, outc):
                            continue
                        base = {'kind': kind, 'pipelining': pipelining, 'nrcpt': n, 'starttls': stage in ('STARTTLS', 'EHLO2'),
                                'tls_required': stage == 'STARTTLS' and outc in ('4xx', '5xx'),
                                'auth': stage == 'AUTH'}
                        script = {stage: outc}
                        if stage == 'HELO':
                            script['EHLO'] = '500'
                        yield dict(base, scripts=[script])
                        if stage in STAGES_MSG:
                            # fault on the second message of a reused connection, and fault on the first followed by a second
                            yield dict(base, reuse=True, scripts=[{'m1:' + stage: outc}, {}])
                            yield dict(base, reuse=True, scripts=[{'m0:' + stage: outc}, {}])
                # every RCPT rejected, all class combinations
                for combo in itertools.product(('4xx', '5xx'), repeat=n):
                    for data in ('2xx', '5xx', '4xx'):
                        script = dict(('RCPT%d' % i, c) for i, c in enumerate(combo))
                        script['DATA'] = data
                        yield {'kind': kind, 'pipelining': pipelining, 'nrcpt': n, 'scripts': [script]}
            yield {'kind': kind, 'pipelining': pipelining, 'nrcpt': 2, 'scripts': [{'EHLO': '500'}]}
            # one mailbox named twice, next to another recipient; each RCPT command / end-of-data reply in turn refused
            for dup in ([1, 0], [2, 0], [2, 1]):
                for stage in ['RCPT0', 'RCPT1', 'RCPT2'] + (['EOD0', 'EOD1', 'EOD2'] if kind == 'lmtp' else []):
                    for outc in ('4xx', '5xx'):
                        yield {'kind': kind, 'pipelining': pipelining, 'nrcpt': 3, 'dup': dup, 'scripts': [{stage: outc}]}
            # addresses that cannot be sent to this peer (no SMTPUTF8 on offer)
            for n in (1, 2, 3):
                for i in range(n):
                    yield {'kind': kind, 'pipelining': pipelining, 'nrcpt': n, 'utf8_rcpt': i, 'scripts': [{}]}
                    yield {'kind': kind, 'pipelining': pipelining, 'nrcpt': n, 'utf8_rcpt': i, 'reuse': True, 'scripts': [{}, {}]}
                yield {'kind': kind, 'pipelining': pipelining, 'nrcpt': n, 'utf8_sender': True, 'scripts': [{}]}
            # AUTH exchanges going wrong on the server side: a challenge that is not base64, unknown / challenge-first mechanisms
            # ('-' = the bare keyword without any mechanism; a mechanism name that is not ASCII; one challenge too many)
            for mechs in ('PLAIN LOGIN', 'LOGIN', 'FOOBAR', 'NTLM GSSAPI', 'FOOBAR PLAIN', 'NTLM LOGIN', '-', 'PL\u00c4IN', 'PL\u00c4IN LOGIN',
                          'CRAM-MD5', 'CRAM-MD5 PLAIN'):
                for outc in ('334bad', '334', '2xx', '5xx'):
                    yield {'kind': kind, 'pipelining': pipelining, 'nrcpt': 1, 'auth': mechs, 'scripts': [{'AUTH': outc}]}
            # a recipient accepted with another positive code than 250 ("251 user not local; will forward")
            for n in (1, 2, 3):
                for i in range(n):
                    for code in ('251', '252'):
                        yield {'kind': kind, 'pipelining': pipelining, 'nrcpt': n, 'scripts': [{'RCPT%d' % i: code}]}
                        yield {'kind': kind, 'pipelining': pipelining, 'nrcpt': n, 'reuse': True, 'scripts': [{'m0:RCPT%d' % i: code}, {}]}
                        for j in range(n):
                            for outc in ('4xx', '5xx'):
                                eod = 'EOD%d' % j if kind == 'lmtp' else 'EOD'
                                yield {'kind': kind, 'pipelining': pipelining, 'nrcpt': n, 'scripts': [{'RCPT%d' % i: code, eod: outc}]}
                                yield {'kind': kind, 'pipelining': pipelining, 'nrcpt': n, 'reuse': True,
                                       'scripts': [{'m0:RCPT%d' % i: code, 'm0:' + eod: outc}, {}]}


@st.composite
def smtp_random(draw):
    kind = draw(st.sampled_from(['smtp', 'lmtp']))
    n = draw(st.integers(1, 3))
    stages = STAGES_CONN + STAGES_MSG
    script = {}
    for _ in range(draw(st.integers(1, 3))):
        stage = draw(st.sampled_from(stages))
        if draw(st.booleans()):
            stage = 'm%d:%s' % (draw(st.integers(0, 1)), stage) if stage in STAGES_MSG else stage
        outc = draw(st.sampled_from(OUTCOMES + ['4xx', '5xx', '500']))
        script[stage] = outc if odd_code_ok(stage, outc) else '4xx'
    script2 = {}
    if draw(st.booleans()):
        stage2, outc2 = draw(st.sampled_from(stages)), draw(st.sampled_from(OUTCOMES))
        script2[stage2] = outc2 if odd_code_ok(stage2, outc2) else '5xx'
    return {'kind': kind, 'pipelining': draw(st.booleans()), 'nrcpt': n, 'starttls': draw(st.booleans()),
            'tls_required': draw(st.booleans()), 'auth': draw(st.booleans()), 'reuse': draw(st.booleans()),
            'multiline': draw(st.booleans()), 'chunks': draw(st.sampled_from([None, [1], [3, 7]])),
            'dup': draw(st.sampled_from([None, None, None, [1, 0], [2, 0], [2, 1]])),
            'scripts': [script, script2]}


# =====================================================================================
# pipe
# =====================================================================================

SCRIPT_DIR = None


def delivery_program(status, out, err):
    """A /bin/sh one-liner consuming stdin, printing the given bytes and exiting with `status`."""
    global SCRIPT_DIR
    if SCRIPT_DIR is None:
        SCRIPT_DIR = tempfile.mkdtemp(prefix='vfc11_')
    path = os.path.join(SCRIPT_DIR, 'prog_%d_%s_%s.sh' % (status, out.hex()[:40], err.hex()[:40]))
    if not os.path.exists(path):
        def q(b):
            return ''.join('\\%03o' % c for c in b)
        with open(path, 'w') as f:
            # a negative status means: the program is killed by that signal (crash, OOM killer) after writing its output
            end = 'exit %d' % status if status >= 0 else 'kill -%d $$; sleep 5' % -status
            f.write('#!/bin/sh\ncat >/dev/null\nprintf \'%s\'\nprintf \'%s\' >&2\n%s\n' % (q(out), q(err), end))
        os.chmod(path, os.stat(path).st_mode | stat.S_IEXEC)
    return path


PIPE_STATUS = [0, 1, 2, 75, 126, -9, -15]
PIPE_TEXTS = [b'', b'5.1.1 user unknown\n', b'4.2.0 mailbox busy\n', b'something broke\n', b'line one\nline two\n', b'\xff\xfe binary\n',
              b'maildrop: quota exceeded\n', b'5.1.1 \xc3\xa9 utf8\n']


def run_pipe_case(case):
    cls = {'pipe': PipeRelay, 'maildrop': MaildropRelay, 'dovecot': DovecotLdaRelay}[case['relay']]
    prog = delivery_program(case['status'], bytes.fromhex(case['out']), bytes.fromhex(case['err']))
    if case.get('missing'):
        prog = prog + '.does-not-exist'          # the delivery program cannot be started at all
    if cls is PipeRelay:
        relay = PipeRelay([prog, '{recipient}'], timeout=20)
        relay.per_recipient = case['per_recipient']
    elif cls is MaildropRelay:
        relay = MaildropRelay(path=prog, timeout=20)
    else:
        relay = DovecotLdaRelay(path=prog, timeout=20)
    env = make_env(case['nrcpt'], 'p')
    rcpts = list(env.recipients)
    if not relay.per_recipient:
        env.recipients = rcpts = rcpts[:1]
    desc = repr(case)
    try:
        res = relay.attempt(env, 0)
    except BaseException as e:
        res = Raised(e)
    verdicts, bad = classify_result(res, rcpts)
    if bad:
        kindsig = 'other-exception:%s' % type(res.exc).__name__ if isinstance(res, Raised) else 'failure-object-returned'
        return [('C11:%s:%s' % (kindsig, case['relay']), '%s: %s' % (desc, bad))], case['status'] != 0
    out = []
    for r in rcpts:
        v = verdicts[r]
        if case.get('missing'):
            if v == 'ok':
                out.append(('C11:success-reported-without-acceptance:%s' % case['relay'], '%s: no program was run' % desc))
                break
        elif case['status'] == 0:
            if v != 'ok':
                out.append(('C11:unexplained-failure:%s' % case['relay'], '%s: exit status 0 reported as %s' % (desc, v)))
                break
        else:
            if v == 'ok':
                out.append(('C11:success-reported-without-acceptance:%s' % case['relay'],
                            '%s: exit status %d reported as delivered' % (desc, case['status'])))
                break
    return out, case['status'] != 0


def run_pipe_timeout_case(case):
    """Per-recipient PipeRelay whose program hangs for one recipient: the timeout must not turn recipients the program
    never finished (or was never started for) into successes."""
    global SCRIPT_DIR
    if SCRIPT_DIR is None:
        SCRIPT_DIR = tempfile.mkdtemp(prefix='vfc11_')
    d = tempfile.mkdtemp(prefix='pt_', dir=SCRIPT_DIR)
    prog = os.path.join(d, 'deliver.sh')
    with open(prog, 'w') as f:
        f.write('#!/bin/sh\ncat >/dev/null\ncase "$1" in r%d@*) sleep 30;; esac\necho done >> "%s/done.$1"\nexit 0\n' % (case['hang'], d))
    os.chmod(prog, os.stat(prog).st_mode | stat.S_IEXEC)
    relay = PipeRelay([prog, '{recipient}'], timeout=0.4)
    relay.per_recipient = True
    env = make_env(case['nrcpt'], 'p')
    rcpts = list(env.recipients)
    desc = repr(case)
    try:
        res = relay.attempt(env, 0)
    except BaseException as e:
        res = Raised(e)
    os.system('pkill -f "%s" >/dev/null 2>&1' % d)
    verdicts, bad = classify_result(res, rcpts)
    if bad:
        return [('C11:pipe-timeout-result', '%s: %s' % (desc, bad))], True
    out = []
    for r in rcpts:
        finished = os.path.exists(os.path.join(d, 'done.' + r))
        if verdicts[r] == 'ok' and not finished:
            out.append(('C11:success-reported-without-acceptance:pipe-timeout',
                        '%s: %s reported delivered although the delivery program never completed for it' % (desc, r)))
            break
        if verdicts[r] == 'perm':
            out.append(('C11:wrong-failure-class:pipe-timeout', '%s: %s reported permanent after a timeout' % (desc, r)))
            break
    return out, True


def pipe_table():
    for relay in ('pipe', 'maildrop', 'dovecot'):
        for per in ((True, False) if relay == 'pipe' else (None,)):
            for status in PIPE_STATUS:
                for out, err in ((b'', b''), (PIPE_TEXTS[1], b''), (b'', PIPE_TEXTS[1]), (PIPE_TEXTS[2], b''), (b'', PIPE_TEXTS[3]),
                                 (PIPE_TEXTS[4], PIPE_TEXTS[3]), (PIPE_TEXTS[5], b''), (b'', PIPE_TEXTS[6]), (PIPE_TEXTS[6], b''),
                                 (PIPE_TEXTS[7], b'')):
                    yield {'relay': relay, 'per_recipient': per if per is not None else (relay == 'dovecot'),
                           'status': status, 'out': out.hex(), 'err': err.hex(), 'nrcpt': 2 if per else 1}
            yield {'relay': relay, 'per_recipient': per if per is not None else (relay == 'dovecot'), 'status': 0, 'out': '', 'err': '',
                   'nrcpt': 2 if per else 1, 'missing': True}


# =====================================================================================
# drivers
# =====================================================================================

def run_shard(ctx):
    index = 0
    for case in smtp_table():
        index += 1
        if not ctx.mine(index):
            continue
        if not ctx.thorough and index % 3 and case.get('reuse'):
            continue
        f, nt = run_smtp_case(case)
        ctx.record(repr(case), nt, labels=['smtp-table', 'kind=' + case['kind']], case=dict(case, family='smtp'), failures=f)

    def one(case):
        f, nt = run_smtp_case(case)
        ctx.record(repr(case), nt, labels=['smtp-random', 'kind=' + case['kind']], case=dict(case, family='smtp'), failures=f)
    hyp.drive(ctx, smtp_random(), one, ctx.n(8000, 100000))

    for case in pipe_table():
        index += 1
        if not ctx.mine(index):
            continue
        if not ctx.thorough and index % 2:
            continue
        f, nt = run_pipe_case(case)
        ctx.record(repr(case), nt, labels=['pipe', 'relay=' + case['relay']], case=dict(case, family='pipe'), failures=f)

    for n in (2, 3, 4):
        for hang in range(n):
            index += 1
            if not ctx.mine(index):
                continue
            case = {'nrcpt': n, 'hang': hang}
            f, nt = run_pipe_timeout_case(case)
            ctx.record(repr(case), nt, labels=['pipe-timeout'], case=dict(case, family='pipe-timeout'), failures=f)

    from vf.props import c11_http
    c11_http.run(ctx, index)


def replay(case):
    fam = case.get('family')
    case = dict((k, v) for k, v in case.items() if k != 'family')
    if fam == 'smtp':
        if case.get('kind') not in ('smtp', 'lmtp') or not isinstance(case.get('scripts'), list):
            return None            # not a case this check generates: cannot be replayed
        n = case.get('nrcpt', 1)
        case['nrcpt'] = max(1, min(3, int(n))) if not isinstance(n, list) else [max(1, min(3, int(x))) for x in n]
        scripts = []
        for s in case['scripts']:
            scripts.append(dict((k, v) for k, v in (s or {}).items()
                                if v in OUTCOMES + ['500', '2xx', '251', '252', '334bad', '334'] and odd_code_ok(k, v)))
        case['scripts'] = scripts or [{}]
        f, _ = run_smtp_case(case)
        return f
    if fam == 'pipe':
        if case.get('relay') not in ('pipe', 'maildrop', 'dovecot'):
            return None            # not a case this check generates: cannot be replayed
        try:
            bytes.fromhex(case['out']), bytes.fromhex(case['err'])
        except Exception:
            return None            # not a case this check generates: cannot be replayed
        st_ = int(case.get('status', 0))
        case['status'] = st_ % 256 if st_ >= 0 else -((-st_) % 32 or 9)
        case['nrcpt'] = max(1, min(3, int(case.get('nrcpt', 1))))
        f, _ = run_pipe_case(case)
        return f
    if fam == 'pipe-timeout':
        n = max(2, min(4, int(case.get('nrcpt', 2))))
        return run_pipe_timeout_case({'nrcpt': n, 'hang': int(case.get('hang', 0)) % n})[0]
    from vf.props import c11_http
    return c11_http.replay(fam, case)
