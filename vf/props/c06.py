"""C06 - a relay hop preserves sender, recipients and content end to end."""
import re
import sys
import email.encoders

import gevent
from gevent import socket as gsocket
from hypothesis import strategies as st

from vf import hyp
from vf import smtpmodel as sm
from vf.props import c20
from vf.props.c08 import server_ctx, client_ctx
from vf.peers import kill_relay, StagePeer, StubClientContext

import slimta.edge.smtp as edge_smtp
import slimta.edge.wsgi as edge_wsgi
from slimta.edge.smtp import SmtpEdge, SmtpValidators
from slimta.edge.wsgi import WsgiEdge
from slimta.envelope import Envelope
from slimta.queue import QueueError
from slimta.relay import RelayError, TransientRelayError, PermanentRelayError
from slimta.relay.smtp.static import StaticSmtpRelay, StaticLmtpRelay
from slimta.relay.http import HttpRelay
from slimta.smtp.server import Server
from slimta.smtp.client import Client
from slimta.smtp.reply import Reply

edge_wsgi.PtrLookup = sm._InertPtr

ID = 'C06'
REALTIME = True      # runs on the wall clock: an unreproducible failure is re-run before it counts (see runner)
LEVEL = 'exploration'
RULE = ('Hypothesis envelopes (null / dot-atom / quoted local parts with space < > @ and quoted-pairs / UTF-8 senders and 1..5 recipients, '
        'well-formed header blocks from the C20 generator, arbitrary bodies) sent by the real StaticSmtpRelay to the real SmtpEdge over a '
        'socketpair (server extension set generated: PIPELINING, 8BITMIME, SMTPUTF8, STARTTLS with real TLS, EHLO refused -> HELO; validators '
        'rejecting some RCPTs; queue verdict generated; 1..3 envelopes per connection), by HttpRelay to WsgiEdge under gevent WSGIServer on '
        'loopback, and by StaticLmtpRelay to a reference LMTP sink; plus Client.ehlo() against Server with generated extension sets. '
        'non-trivial = quoted or UTF-8 address, or >=2 recipients with a rejected one, or connection reuse, or a non-default extension set; '
        'distinct = distinct case')
ASSUMPTIONS = ['UTF-8 addresses only when SMTPUTF8 is advertised; 8-bit bodies are expected to fail with 5.6.3 when 8BITMIME is not '
               'advertised and no encoder is configured', 'the library has no LMTP server: the LMTP leg ends in the harness sink']


class CfgServer(Server):
    """Server whose extension set is adjusted after construction (substituted into slimta.edge.smtp from the harness side)."""
    cfg = {}

    def __init__(self, *a, **kw):
        super(CfgServer, self).__init__(*a, **kw)
        for ext in self.cfg.get('drop', []):
            self.extensions.drop(ext)

    def _command_EHLO(self, ehlo_as):
        if self.cfg.get('no_ehlo'):
            from slimta.smtp.reply import unknown_command
            unknown_command.send(self.io)
            return
        return super(CfgServer, self)._command_EHLO(ehlo_as)


edge_smtp.Server = CfgServer


class VerdictQueue(object):
    def __init__(self):
        self.envelopes = []

    def enqueue(self, envelope):
        self.envelopes.append(envelope)
        d = re.search(br'X-Queue-Delay: (\d+)', b''.join(envelope.flatten()))
        if d:
            gevent.sleep(int(d.group(1)) / 1000.0)      # a slow queue: the end-of-data reply takes its time
        m = re.search(br'X-Queue-Verdict: (\d\d\d)( cmd| multi| relay| utf8)?', b''.join(envelope.flatten()))
        if m:
            code = m.group(1).decode()
            how = (m.group(2) or b'').strip()
            text = '%s.3.0 scripted queue verdict' % code[0]
            if how == b'multi':
                text += '\r\nsecond line of the verdict'          # as many real servers answer
            if how == b'utf8':
                text += ' bo\u00eete pleine \u2709'                # reply text is UTF-8 (SMTPUTF8 servers, localised messages)
            reply = Reply(code, text, command=(b'RCPT' if how in (b'cmd', b'relay') else None))
            if how == b'relay':
                # what a ProxyQueue behind the edge hands back: the relay error of the next hop
                from slimta.relay.smtp import SmtpRelayError
                return [(envelope, SmtpRelayError.factory(reply))]
            e = QueueError('scripted')
            e.reply = reply
            return [(envelope, e)]
        return [(envelope, 'id%d' % len(self.envelopes))]


def rcpt_verdict(addr):
    return sm.verdict_of(addr)


def make_validators():
    class V(SmtpValidators):
        def handle_rcpt(self, reply, address, params):
            sm.apply_verdict(reply, sm.verdict_of(address))
    return V


def build_env(spec):
    env = Envelope(spec['sender'], list(spec['rcpts']))
    env.parse(bytes.fromhex(spec['block']) + b'\r\n' + bytes.fromhex(spec['body']))
    return env


LATE = b'X-Late: added after the envelope was first flattened\r\n'


def late_header(spec, env, before):
    """The envelope has been flattened once (a queue policy, an earlier attempt); then a header is added through the Message
    API, as the header policies and the spam filter do. What is relayed is the envelope as it is at the time of the attempt."""
    if not spec.get('late') or not before[0].endswith(b'\r\n\r\n'):
        return before
    env.headers['X-Late'] = 'added after the envelope was first flattened'
    return (before[0][:-2] + LATE + b'\r\n', before[1])


def expected_content(env_before):
    hdr, body = env_before
    data = hdr + body
    if data and not data.endswith(b'\r\n'):
        data += b'\r\n'
    return data


def result_of(attempt):
    try:
        return attempt(), None
    except RelayError as e:
        return None, e


def compare_results(desc, idx, rcpts, res, exc, want):
    """want: dict rcpt -> expected reply code; -> failures"""
    out = []
    for r in rcpts:
        alts = want[r] if isinstance(want[r], tuple) else (want[r],)
        bad = None
        for w in alts:
            bad = _compare_one(desc, idx, r, res, exc, w)
            if bad is None:
                break
        if bad is not None:
            out.append(bad)
            break
    return out


def _compare_one(desc, idx, r, res, exc, w):
    if True:
        if exc is not None:
            got = exc.reply.code
            cls_ok = isinstance(exc, PermanentRelayError) == (w[0] == '5')
        else:
            v = res.get(r) if isinstance(res, dict) else res
            if isinstance(v, RelayError):
                got = v.reply.code
                cls_ok = isinstance(v, PermanentRelayError) == (w[0] == '5') and w[0] in '45'
            elif v is None or isinstance(v, Reply):
                got = v.code if v is not None else '250'
                cls_ok = w[0] == '2'
            else:
                got, cls_ok = repr(v), False
        if got != w or not cls_ok:
            return ('C06:result-differs-from-edge-reply', '%s: message #%d recipient %r reported %r (%s), the edge replied %s'
                    % (desc, idx, r, got, type(exc).__name__ if exc is not None else type(res).__name__, w))
    return None


# -- SMTP leg ---------------------------------------------------------------------------------

def run_smtp_case(case):
    cfg = case['server']
    CfgServer.cfg = cfg
    queue = VerdictQueue()
    tls = cfg.get('starttls')
    edge = SmtpEdge(None, queue, hostname='edge.example', validator_class=make_validators(),
                    context=server_ctx() if tls else None, auth=([b'PLAIN', b'LOGIN'] if cfg.get('auth') else False))
    conns = []

    def creator(address):
        a, b = gsocket.socketpair()
        g = gevent.spawn(edge.handle, b, ('192.0.2.7', 2525))
        conns.append((a, b, g))
        return a

    tkw = {'command_timeout': 0.5, 'data_timeout': 30.0} if cfg.get('short_command_timeout') else {}
    relay = StaticSmtpRelay('peer.example', 25, socket_creator=creator, context=client_ctx(), ehlo_as='relay.example',
                            idle_timeout=(5 if len(case['envelopes']) > 1 else None),
                            binary_encoder=None, credentials=(('relayuser', 'relaypass') if cfg.get('auth') == 'use' else None), **tkw)
    out = []
    desc = repr({'server': cfg, 'envelopes': [(e['sender'], e['rcpts']) for e in case['envelopes']]})
    try:
        captured = 0
        for idx, spec in enumerate(case['envelopes']):
            env = build_env(spec)
            before = late_header(spec, env, env.flatten())
            rcpts = list(env.recipients)
            res, exc = None, None
            try:
                with gevent.Timeout(10):
                    res, exc = result_of(lambda: relay.attempt(env, 0))
            except gevent.Timeout:
                return [('C06:hop-hangs:smtp', desc)], True
            except Exception as e:
                return [('C06:hop-exception:%s' % type(e).__name__, '%s: message #%d: %r' % (desc, idx, e))], True
            eightbit = any(c > 127 for c in before[1])
            no8 = '8BITMIME' in cfg.get('drop', []) or cfg.get('no_ehlo')
            accepted = [r for r in rcpts if not rcpt_verdict(r)]
            qv = re.search(br'X-Queue-Verdict: (\d\d\d)', before[0] + before[1])
            if eightbit and no8:
                # documented outcome: permanent 5.6.3 conversion failure, nothing sent
                if not isinstance(exc, PermanentRelayError) or '5.6.3' not in exc.reply.message:
                    out.append(('C06:8bit-without-8bitmime', '%s: message #%d: expected a 5.6.3 permanent failure, got %r / %r'
                                % (desc, idx, res, exc)))
                if len(queue.envelopes) != captured:
                    out.append(('C06:8bit-data-sent-to-7bit-server', '%s: message #%d' % (desc, idx)))
                if out:
                    break
                continue
            want = {}
            final = qv.group(1).decode() if qv else '250'
            for r in rcpts:
                want[r] = rcpt_verdict(r) or final
                if rcpt_verdict(r) and final[0] in '45' and accepted:
                    # a failed message may be reported for the whole envelope (relay contract)
                    want[r] = (rcpt_verdict(r), final)
            if accepted:
                if len(queue.envelopes) != captured + 1:
                    out.append(('C06:message-not-received', '%s: message #%d: the edge queue received %d new envelopes'
                                % (desc, idx, len(queue.envelopes) - captured)))
                    break
                got = queue.envelopes[-1]
                captured += 1
                if got.sender != env.sender:
                    out.append(('C06:sender-changed', '%s: message #%d: sent %r received %r' % (desc, idx, env.sender, got.sender)))
                    break
                if list(got.recipients) != accepted:
                    out.append(('C06:recipients-changed', '%s: message #%d: sent %r (accepted %r) received %r'
                                % (desc, idx, rcpts, accepted, got.recipients)))
                    break
                if b''.join(got.flatten()) != expected_content(before):
                    out.append(('C06:content-changed', '%s: message #%d: sent %r received %r'
                                % (desc, idx, b''.join(before)[:120], b''.join(got.flatten())[:120])))
                    break
                if got.client.get('name') != 'relay.example':
                    out.append(('C06:ehlo-identity', '%s: %r' % (desc, got.client)))
                    break
                if cfg.get('auth') == 'use' and tuple(got.client.get('auth') or ()) != ('relayuser', 'relayuser'):
                    out.append(('C06:auth-identity', '%s: envelope.client auth=%r' % (desc, got.client.get('auth'))))
                    break
            else:
                if len(queue.envelopes) != captured:
                    out.append(('C06:message-received-without-recipients', '%s: message #%d' % (desc, idx)))
                    break
                # with no recipient accepted the server answers DATA with 503: either that or the RCPT reply is reported
                if exc is not None:
                    if exc.reply.code not in set(want.values()) | {'503'}:
                        out.append(('C06:result-differs-from-edge-reply', '%s: message #%d: %r' % (desc, idx, exc.reply)))
                        break
                    continue
            out.extend(compare_results(desc, idx, rcpts, res, exc, want))
            if out:
                break
        if not out and len(case['envelopes']) > 1 and len(conns) > 1 and not case.get('expect_reconnect'):
            # reuse is best effort: a failed transaction may end the connection; only content was judged
            pass
    finally:
        kill_relay(relay)
        for a, b, g in conns:
            g.join(timeout=1)
            if not g.dead:
                g.kill(block=False)
            for s in (a, b):
                try:
                    s.close()
                except Exception:
                    pass
    return out, True


# -- HTTP leg -----------------------------------------------------------------------------------

def run_http_case(case):
    queue = VerdictQueue()
    from gevent.pywsgi import WSGIServer
    edge = WsgiEdge(queue, hostname='edge.example')
    server = WSGIServer(('127.0.0.1', 0), edge, log=None, error_log=None)
    server.start()
    relay = HttpRelay('http://127.0.0.1:%d/' % server.server_port, ehlo_as='relay.example', timeout=10,
                      idle_timeout=(5 if len(case['envelopes']) > 1 else None))
    out = []
    desc = repr({'http': True, 'envelopes': [(e['sender'], e['rcpts']) for e in case['envelopes']]})
    try:
        for idx, spec in enumerate(case['envelopes']):
            env = build_env(spec)
            before = late_header(spec, env, env.flatten())
            rcpts = list(env.recipients)
            try:
                with gevent.Timeout(15):
                    res, exc = result_of(lambda: relay.attempt(env, 0))
            except gevent.Timeout:
                return [('C06:hop-hangs:http', desc)], True
            except Exception as e:
                return [('C06:hop-exception:%s' % type(e).__name__, '%s: message #%d: %r' % (desc, idx, e))], True
            qv = re.search(br'X-Queue-Verdict: (\d\d\d)', before[0] + before[1])
            final = qv.group(1).decode() if qv else '250'
            if len(queue.envelopes) != idx + 1:
                out.append(('C06:message-not-received', '%s: message #%d (result %r / %r)' % (desc, idx, res, exc)))
                break
            got = queue.envelopes[-1]
            if got.sender != env.sender:
                out.append(('C06:sender-changed', '%s: message #%d: sent %r received %r' % (desc, idx, env.sender, got.sender)))
                break
            if list(got.recipients) != rcpts:
                out.append(('C06:recipients-changed', '%s: message #%d: sent %r received %r' % (desc, idx, rcpts, got.recipients)))
                break
            if b''.join(got.flatten()) != b''.join(before):
                out.append(('C06:content-changed', '%s: message #%d: sent %r received %r'
                            % (desc, idx, b''.join(before)[:120], b''.join(got.flatten())[:120])))
                break
            out.extend(compare_results(desc, idx, rcpts, res, exc, dict((r, final) for r in rcpts)))
            if out:
                break
    finally:
        kill_relay(relay)
        server.stop()
    return out, True


# -- LMTP leg (reference sink) ----------------------------------------------------------------------

def run_lmtp_case(case):
    peers = []

    def creator(address):
        exts = ['8BITMIME', 'ENHANCEDSTATUSCODES', 'SMTPUTF8'] + (['PIPELINING'] if case.get('pipelining', True) else [])
        script = {}
        p = StagePeer(script, lmtp=True, exts=exts, chunks=case.get('chunks'))
        peers.append(p)
        return p
    relay = StaticLmtpRelay('peer.example', 24, socket_creator=creator, context=StubClientContext(), ehlo_as='relay.example')
    out = []
    desc = repr({'lmtp': True, 'envelopes': [(e['sender'], e['rcpts']) for e in case['envelopes']]})
    try:
        for idx, spec in enumerate(case['envelopes'][:1]):
            env = build_env(spec)
            before = late_header(spec, env, env.flatten())
            rcpts = list(env.recipients)
            try:
                res, exc = result_of(lambda: relay.attempt(env, 0))
            except Exception as e:
                return [('C06:hop-exception:%s' % type(e).__name__, '%s: %r' % (desc, e))], True
            acc = [m for p in peers for m in p.accepted_msgs]
            if len(acc) != 1:
                out.append(('C06:message-not-received', '%s: sink received %d messages (%r / %r)' % (desc, len(acc), res, exc)))
                break
            _, sender, accepted, data = acc[0]
            if sender != env.sender or accepted != rcpts:
                out.append(('C06:recipients-changed', '%s: sink got sender %r rcpts %r' % (desc, sender, accepted)))
                break
            undot = re.sub(br'(^|\n)\.', br'\1', data)
            if undot != expected_content(before):
                out.append(('C06:content-changed', '%s: sent %r sink received %r' % (desc, b''.join(before)[:120], undot[:120])))
                break
    finally:
        kill_relay(relay)
    return out, True


# -- extensions sub-check ------------------------------------------------------------------------------

def run_ext_case(case):
    a, b = gsocket.socketpair()
    server = Server(b, None, ('192.0.2.7', 1))
    server.extensions.reset()
    for name, param in case['exts']:
        server.extensions.add(name, param)

    def run():
        try:
            server.handle()
        except Exception:
            pass
    g = gevent.spawn(run)
    out = []
    try:
        c = Client(a, ('peer.example', 25))
        with gevent.Timeout(5):
            c.get_banner()
            r = c.ehlo('client.example')
            c.quit()
        want = dict((n.upper(), (p if p else None)) for n, p in case['exts'])
        got = dict(c.extensions.extensions)
        if r.code != '250' or got != want:
            out.append(('C06:extensions-differ', 'server advertised %r, client sees %r' % (want, got)))
    except Exception as e:
        out.append(('C06:ehlo-exception:%s' % type(e).__name__, '%r: %r' % (case, e)))
    finally:
        g.join(timeout=1)
        if not g.dead:
            g.kill(block=False)
        a.close()
        b.close()
    return out, True


# -- generators -----------------------------------------------------------------------------------------

_atoms = st.sampled_from(['user', 'a.b', 'x+tag', 'o\'brien', 'v450', 'v550', 'UPPER', '!#$%&*', 'a_b-c'])
_qelem = st.sampled_from(['a', 'b', 'Z', ' ', '<', '>', '@', ',', ';', ':', '.', '\\"', '\\\\', '\\a', '\\ ', 'v550'])
_quoted_built = st.lists(_qelem, min_size=1, max_size=5).map(lambda l: '"' + ''.join(l) + '"')
_quoted_fixed = st.sampled_from(['"a b"', '"a@b"', '"<x>"', '"q\\"uote"', '"back\\\\slash"', '"v550 quoted"', '"q\\"<>"', '">"', '" "'])
_quoted = st.one_of(_quoted_fixed, _quoted_built, _quoted_built)
# (the last three are not in Unicode normal form C: a combining accent, the Angstrom sign, a compatibility ideograph)
_utf8 = st.sampled_from(['üser', 'дмитрий', '用户', '"ü b"', 'cafe\u0301', '\u212bngstrom', 'x\uf900y'])
_doms = st.sampled_from(['example.com', 'sub.example.org', 'EXAMPLE.net', 'xn--bcher-kva.example', '[192.0.2.1]'])
_udoms = st.sampled_from(['bücher.example', 'пример.рф'])


@st.composite
def address(draw, utf8):
    kind = draw(st.sampled_from(['atom', 'atom', 'quoted', 'utf8' if utf8 else 'atom']))
    local = draw({'atom': _atoms, 'quoted': _quoted, 'utf8': _utf8}[kind])
    dom = draw(_udoms) if (utf8 and draw(st.integers(0, 3)) == 0) else draw(_doms)
    return local + '@' + dom


@st.composite
def envelope_spec(draw, utf8, eightbit_ok):
    sender = draw(st.one_of(st.just(''), address(utf8)))
    rcpts = draw(st.lists(address(utf8), min_size=1, max_size=5))
    if draw(st.integers(0, 5)) == 0:
        # every recipient refused, with mixed classes (the transaction stays open on the server until it is reset)
        rcpts = draw(st.permutations(['v450@example.com', 'v550@example.org'] + draw(st.lists(st.sampled_from(
            ['v550@x.example', 'v450@y.example']), max_size=1))))
    block, eol, body, fields = draw(c20.structured_case())
    block = re.sub(br'\r?\n', b'\r\n', block).rstrip(b'\r\n') + b'\r\n'
    if not draw(st.integers(0, 3)):
        block += b'X-Queue-Verdict: ' + draw(st.sampled_from([b'451', b'554', b'452'])) + \
            draw(st.sampled_from([b'', b'', b' cmd', b' multi', b' relay', b' utf8'])) + b'\r\n'
    body = draw(st.one_of(st.just(body), st.sampled_from([b'', b'.\r\n', b'..\r\n.\r\n', b'no newline', b'a\nb\n', b'line\r\n' * 50,
                                                          b'x', b'.', b'\n', b'one\r\n.x', b'one\r\n.', b'\r'])))
    if not eightbit_ok and draw(st.integers(0, 4)):
        body = bytes(c for c in body if c < 128)
        block = bytes(c if c < 128 else 63 for c in block)
    return {'sender': sender, 'rcpts': rcpts, 'block': block.hex(), 'body': body.hex(),
            'late': draw(st.sampled_from([False, False, False, True]))}


@st.composite
def smtp_case(draw):
    drop = draw(st.lists(st.sampled_from(['PIPELINING', '8BITMIME', 'SMTPUTF8', 'ENHANCEDSTATUSCODES']), max_size=3, unique=True))
    no_ehlo = draw(st.integers(0, 7)) == 0
    cfg = {'drop': drop, 'no_ehlo': no_ehlo, 'starttls': draw(st.integers(0, 3)) == 0 and not no_ehlo,
           'auth': (draw(st.sampled_from([None, None, 'advertise', 'use'])) if not no_ehlo else None)}
    utf8 = 'SMTPUTF8' not in drop and not no_ehlo
    eight = '8BITMIME' not in drop and not no_ehlo
    n = draw(st.sampled_from([1, 1, 2, 3]))
    envs = [draw(envelope_spec(utf8, eight)) for _ in range(n)]
    return {'family': 'smtp', 'server': cfg, 'envelopes': envs}


@st.composite
def http_case(draw):
    n = draw(st.sampled_from([1, 1, 2]))
    envs = []
    for _ in range(n):
        e = draw(envelope_spec(True, True))
        e['rcpts'] = [r for r in e['rcpts']]
        envs.append(e)
    return {'family': 'http', 'envelopes': envs}


@st.composite
def lmtp_case(draw):
    e = draw(envelope_spec(True, True))
    e['rcpts'] = [r.replace('v450', 'w450').replace('v550', 'w550') for r in e['rcpts']]
    return {'family': 'lmtp', 'envelopes': [e], 'pipelining': draw(st.booleans()), 'chunks': draw(st.sampled_from([None, [1], [5, 9]]))}


_ext = st.tuples(st.sampled_from(['PIPELINING', '8BITMIME', 'SIZE', 'SMTPUTF8', 'DSN', 'X-CUSTOM', 'AUTH', 'ENHANCEDSTATUSCODES', 'CHUNKING',
                                  'x-lower', 'A1-B2']),
                 st.sampled_from([None, None, '1000', 'PLAIN LOGIN', 'a b  c', '=x']))
_ext_case = st.lists(_ext, max_size=6, unique_by=lambda t: t[0].upper()).map(lambda l: {'family': 'ext', 'exts': [list(x) for x in l]})


def nontrivial(case):
    if case['family'] == 'stall':
        return True
    if case['family'] in ('ext',):
        return bool(case['exts'])
    envs = case['envelopes']
    addrs = [e['sender'] for e in envs] + [r for e in envs for r in e['rcpts']]
    return (any('"' in a or any(ord(c) > 127 for c in a) for a in addrs) or len(envs) > 1 or
            any(len(e['rcpts']) >= 2 and any(sm.verdict_of(r) for r in e['rcpts']) for e in envs) or
            bool(case.get('server', {}).get('drop')) or bool(case.get('server', {}).get('no_ehlo')))


class SlowReader(object):
    """The edge's side of the connection: once the DATA command has been read, one recv() pauses (a busy server)."""

    def __init__(self, sock, pause):
        self._sock = sock
        self._pause = pause
        self._tail = b''
        self._armed = False

    def recv(self, n):
        if self._armed:
            self._armed = False
            self._pause, pause = 0, self._pause
            gevent.sleep(pause)
        data = self._sock.recv(n)
        if self._pause and b'DATA\r\n' in self._tail + data:
            self._armed = True
        self._tail = (self._tail + data)[-8:]
        return data

    def __getattr__(self, name):
        return getattr(self._sock, name)


def run_stall_case(case):
    """A message larger than the socket buffers to an edge that stops reading for longer than the relay's data timeout. The
    attempt may fail - but whatever the edge then accepts must still be the message that was handed to the relay."""
    CfgServer.cfg = {'drop': [] if case['pipelining'] else ['PIPELINING'], 'no_ehlo': False, 'starttls': False, 'auth': None}
    queue = VerdictQueue()
    edge = SmtpEdge(None, queue, hostname='edge.example', validator_class=make_validators(), data_timeout=20.0, command_timeout=20.0)
    conns = []

    def creator(address):
        a, b = gsocket.socketpair()
        conns.append((a, b, gevent.spawn(edge.handle, SlowReader(b, case['pause']), ('192.0.2.7', 2525))))
        return a
    relay = StaticSmtpRelay('peer.example', 25, socket_creator=creator, context=client_ctx(), ehlo_as='relay.example',
                            command_timeout=1.0, data_timeout=case['data_timeout'], idle_timeout=None)
    env = Envelope('s@x.example', ['r@y.example'])
    line = b'0123456789abcdefghijklmnopqrstuvwxyzABCDEFGHIJKLMNOPQRSTUVWXYZ %07d\r\n'
    env.parse(b'Subject: large\r\n\r\n' + b''.join(line % i for i in range(case['lines'])))
    before = env.flatten()
    desc = repr(case)
    out = []
    try:
        try:
            with gevent.Timeout(20):
                res, exc = result_of(lambda: relay.attempt(env, 0))
        except gevent.Timeout:
            return [('C06:hop-hangs:stalled-edge', desc)], True
        gevent.joinall([g for _, _, g in conns], timeout=10)
        for got in queue.envelopes:
            flat = b''.join(got.flatten())
            if flat != expected_content(before):
                out.append(('C06:edge-accepted-altered-content', '%s: the relay reported %r; the edge accepted %d bytes for a message of '
                            '%d bytes (first difference at byte %d)'
                            % (desc, exc.reply if exc is not None else res, len(flat), len(expected_content(before)),
                               next((i for i, (x, y) in enumerate(zip(flat, expected_content(before))) if x != y), min(len(flat), len(expected_content(before)))))))
                break
        if exc is None and len(queue.envelopes) != 1:
            out.append(('C06:message-not-received', '%s: success reported, the edge queue holds %d envelopes' % (desc, len(queue.envelopes))))
    finally:
        for a, b, g in conns:
            if not g.dead:
                g.kill(block=False)
            for s_ in (a, b):
                try:
                    s_.close()
                except Exception:
                    pass
    return out, True


RUNNERS = {'smtp': run_smtp_case, 'http': run_http_case, 'lmtp': run_lmtp_case, 'ext': run_ext_case, 'stall': run_stall_case}


def run_shard(ctx):
    def one(case):
        f, _ = RUNNERS[case['family']](case)
        ctx.record(repr(case), nontrivial(case), labels=['leg=' + case['family']], case=case, failures=f)
    hyp.drive(ctx, smtp_case(), one, ctx.n(1200, 15000))
    # a queue that answers the end of DATA later than the relay's command timeout, but well within its data timeout
    for k in range(32 if not ctx.thorough else 128):
        if ctx.mine(k):
            pipelining = k % 2 == 0
            one({'family': 'smtp', 'server': {'drop': [] if pipelining else ['PIPELINING'], 'no_ehlo': False, 'starttls': False,
                                              'auth': None, 'short_command_timeout': True},
                 'envelopes': [{'sender': 's@x.example', 'rcpts': ['r%d@y.example' % i for i in range(1 + k % 3)],
                                'block': (b'Subject: slow %d\r\nX-Queue-Delay: 1000\r\n' % k).hex(), 'body': b'body\r\n'.hex()}]})
    # the edge stops reading in the middle of a large message, for longer / shorter than the relay's data timeout
    k = 0
    for lines in (20000, 60000):
        for pipelining in (True, False):
            for pause, data_timeout in ((0.5, 0.1), (0.3, 5.0)):
                k += 1
                if ctx.mine(k):
                    one({'family': 'stall', 'lines': lines, 'pipelining': pipelining, 'pause': pause, 'data_timeout': data_timeout})
    hyp.drive(ctx, http_case(), one, ctx.n(200, 3000), salt=1)
    hyp.drive(ctx, lmtp_case(), one, ctx.n(300, 5000), salt=2)
    hyp.drive(ctx, _ext_case, one, ctx.n(300, 5000), salt=3)


def replay(case):
    fam = case.get('family')
    if fam not in RUNNERS:
        return None            # not a case this check generates: cannot be replayed
    try:
        if fam == 'stall':
            return run_stall_case({'family': 'stall', 'lines': max(1, min(100000, int(case['lines']))), 'pipelining': bool(case['pipelining']),
                                   'pause': min(2.0, float(case['pause'])), 'data_timeout': min(10.0, float(case['data_timeout']))})[0]
        if fam == 'ext':
            exts = [(str(n), (None if p is None else str(p))) for n, p in case['exts'] if re.match(r'^[a-zA-Z0-9][a-zA-Z0-9-]*$', str(n))]
            return run_ext_case({'family': 'ext', 'exts': exts})[0]
        envs = []
        for e in case['envelopes']:
            block = bytes.fromhex(e['block'])
            if not c20.in_domain(block.rstrip(b'\r\n')) or not e['rcpts']:
                return None            # not a case this check generates: cannot be replayed
            for a in [x for x in [e['sender']] if x] + list(e['rcpts']):
                if not re.match(r'^("([^"\\\r\n]|\\.)*"|[^\s"<>@\\]+)@[^\s<>@"]+$', a):
                    return None            # not a case this check generates: cannot be replayed
            envs.append(e)
        if not envs:
            return None            # not a case this check generates: cannot be replayed
        return RUNNERS[fam](dict(case, envelopes=envs))[0]
    except (KeyError, ValueError, TypeError):
        return None            # not a case this check generates: cannot be replayed
