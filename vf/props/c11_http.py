"""C11, HTTP and MX legs: HttpRelay against a raw scripted HTTP peer on loopback; MxSmtpRelay with a stub resolver."""
import struct
import socket as _socket

import re
import gevent
from gevent.event import AsyncResult
from gevent.server import StreamServer
import pycares.errno

from vf.peers import kill_relay, StagePeer, StubClientContext
from vf.props import c11 as main

import slimta.util.dns as sdns
from slimta.util.dns import DNSError
from slimta.relay.http import HttpRelay
from slimta.relay.smtp.mx import MxSmtpRelay
from slimta.relay import TransientRelayError, PermanentRelayError

HTTP_STATUS = [(200, 'OK'), (204, 'No Content'), (301, 'Moved'), (400, 'Bad Request'), (404, 'Not Found'), (500, 'Server Error'),
               (503, 'Unavailable'), (302, 'Found'), (502, 'Bad Gateway'), (420, 'Enhance Your Calm')]
HTTP_HEADERS = ['none', '250; message="2.6.0 accepted"', '450; message="4.2.0 later"', '550; message="5.1.1 no such user"', 'garbage',
                # the form WsgiEdge emits for a reply that carries the command it answered
                '550; message="5.1.1 no such user"; command="RCPT"', '450; command="DATA"; message="4.3.0 busy"',
                '250; message="2.6.0 accepted"; command="[SEND_DATA]"', '550; message="5.7.1 said \\"no\\""', '550',
                # three digits that are no reply code
                '650; message="x"', '099; message="x"', '000; message="x"']
HTTP_FAULTS = ['none', 'disconnect-before-response', 'reset', 'partial-response']


class HttpPeer(object):
    def __init__(self, case):
        self.case = case
        self.requests = []
        self.server = StreamServer(('127.0.0.1', 0), self.handle)
        self.server.start()
        self.port = self.server.server_port

    def handle(self, sock, addr):
        try:
            f = sock.makefile('rb')
            line = f.readline()
            if not line:
                return
            headers = {}
            while True:
                h = f.readline()
                if h in (b'\r\n', b'\n', b''):
                    break
                k, _, v = h.partition(b':')
                headers.setdefault(k.strip().lower(), []).append(v.strip())
            n = int(headers.get(b'content-length', [b'0'])[0])
            body = f.read(n)
            self.requests.append((line, headers, body))
            fault = self.case.get('fault', 'none')
            if fault == 'disconnect-before-response':
                return
            if fault == 'reset':
                sock.setsockopt(_socket.SOL_SOCKET, _socket.SO_LINGER, struct.pack('ii', 1, 0))
                return
            status, reason = self.case['status'], self.case['reason']
            out = 'HTTP/1.1 %d %s\r\n' % (status, reason)
            if self.case.get('header', 'none') != 'none':
                out += 'X-Smtp-Reply: %s\r\n' % self.case['header']
            payload = b'response body' if self.case.get('body') and status not in (204,) else b''
            out += 'Content-Length: %d\r\nConnection: close\r\n\r\n' % len(payload)
            data = out.encode() + payload
            if fault == 'partial-response':
                data = data[:7]
            sock.sendall(data)
        except (OSError, ValueError):
            pass
        finally:
            try:
                sock.close()
            except Exception:
                pass

    def stop(self):
        self.server.stop()


def run_http_case(case):
    peer = HttpPeer(case)
    relay = HttpRelay('http://127.0.0.1:%d/deliver' % peer.port, ehlo_as='relay.example', timeout=5.0)
    env = main.make_env(case.get('nrcpt', 2), 'h')
    rcpts = list(env.recipients)
    desc = repr(case)
    got = AsyncResult()

    def go():
        try:
            got.set(relay.attempt(env, 0))
        except BaseException as e:
            got.set(main.Raised(e))
    g = gevent.spawn(go)
    try:
        g.join(timeout=8)
        if not got.ready():
            g.kill(block=False)
            return [('C11:attempt-never-returns:http', '%s: HttpRelay.attempt() never returned' % desc)], True
        res = got.get()
    finally:
        kill_relay(relay)
        peer.stop()
    verdicts, bad = main.classify_result(res, rcpts)
    if bad:
        kindsig = 'other-exception:%s' % type(res.exc).__name__ if isinstance(res, main.Raised) else 'malformed-result'
        return [('C11:%s:http' % kindsig, '%s: %s' % (desc, bad))], True
    fault = case.get('fault', 'none')
    ok_expected = fault == 'none' and 200 <= case['status'] < 300
    out = []
    for r in rcpts:
        v = verdicts[r]
        if v == 'ok' and not ok_expected:
            out.append(('C11:success-reported-without-acceptance:http', '%s: reported delivered' % desc))
            break
        if v != 'ok' and ok_expected:
            out.append(('C11:unexplained-failure:http', '%s: a 2xx response was reported as %s' % (desc, v)))
            break
        if v != 'ok':
            want = None
            if fault != 'none':
                want = 'temp'
            elif re.match(r'^\s*4\d\d\s*;', case.get('header', 'none')):      # documented form: code; message="..."
                want = 'temp'
            elif re.match(r'^\s*5\d\d\s*;', case.get('header', 'none')):
                want = 'perm'
            if want and v != want:
                out.append(('C11:wrong-failure-class:http', '%s: reported %s, expected %s' % (desc, v, want)))
                break
    if not out and fault == 'none' and peer.requests:
        line, headers, body = peer.requests[0]
        if body != b''.join(env.flatten()):
            out.append(('C11:http-body', '%s: request body differs from the message' % desc))
    return out, not ok_expected


def run_http_surplus_case(case):
    """A kept-alive connection: the peer answers the first request and sends one more response nobody asked for (in the same
    segment or a little later); it refuses the second request. The surplus response must not be taken for the answer to the
    second message."""
    count = [0]

    def handle(sock, addr):
        try:
            f = sock.makefile('rb')
            while True:
                line = f.readline()
                if not line:
                    return
                n = 0
                while True:
                    h = f.readline()
                    if h in (b'\r\n', b'\n', b''):
                        break
                    if h.lower().startswith(b'content-length:'):
                        n = int(h.split(b':')[1])
                f.read(n)
                count[0] += 1
                ok = b'HTTP/1.1 200 OK\r\nX-Smtp-Reply: 250; message="2.6.0 accepted"\r\nContent-Length: 0\r\n\r\n'
                if count[0] == 1:
                    if case['surplus'] == 'same-segment':
                        sock.sendall(ok + ok)
                    else:
                        sock.sendall(ok)
                        gevent.sleep(0.02)
                        sock.sendall(ok)
                else:
                    sock.sendall(b'HTTP/1.1 500 Server Error\r\nX-Smtp-Reply: 550; message="5.1.1 no such user"\r\nContent-Length: 0\r\n\r\n')
        except (OSError, ValueError):
            pass
        finally:
            try:
                sock.close()
            except Exception:
                pass
    server = StreamServer(('127.0.0.1', 0), handle)
    server.start()
    relay = HttpRelay('http://127.0.0.1:%d/deliver' % server.server_port, ehlo_as='relay.example', timeout=5.0, idle_timeout=5.0, pool_size=1)
    desc = repr(case)
    out = []
    try:
        results = []
        for k in range(2):
            env = main.make_env(1, 'h%d' % k)
            got = AsyncResult()

            def go(env=env, got=got):
                try:
                    got.set(relay.attempt(env, 0))
                except BaseException as e:
                    got.set(main.Raised(e))
            g = gevent.spawn(go)
            g.join(timeout=8)
            if not got.ready():
                g.kill(block=False)
                return [('C11:attempt-never-returns:http', '%s: attempt #%d never returned' % (desc, k))], True
            verdicts, bad = main.classify_result(got.get(), list(env.recipients))
            if bad:
                return [('C11:malformed-result:http', '%s: attempt #%d: %s' % (desc, k, bad))], True
            results.append(list(verdicts.values())[0])
            gevent.sleep(0.06)
        if results[1] == 'ok':
            out.append(('C11:success-reported-without-acceptance:http-surplus-response',
                        '%s: the second message was answered 500 / 550 by the peer and is reported delivered' % desc))
    finally:
        kill_relay(relay)
        server.stop()
    return out, True


def http_table():
    for status, reason in HTTP_STATUS:
        for header in HTTP_HEADERS:
            for body in (True, False):
                yield {'status': status, 'reason': reason, 'header': header, 'body': body, 'fault': 'none'}
    for fault in HTTP_FAULTS[1:]:
        yield {'status': 200, 'reason': 'OK', 'header': 'none', 'body': False, 'fault': fault}


# -- MX ------------------------------------------------------------------------------------

class _Rec(object):
    def __init__(self, host=None, priority=None, ttl=300):
        self.host = host
        self.priority = priority
        self.ttl = ttl


ERRNOS = {'nodata': pycares.errno.ARES_ENODATA, 'notfound': pycares.errno.ARES_ENOTFOUND,
          'servfail': pycares.errno.ARES_ESERVFAIL, 'timeout': pycares.errno.ARES_ETIMEOUT}


def run_mx_case(case):
    answers = case['answers']        # {'MX': [...]|errname, 'A': [...]|errname}
    queries = []

    def stub_query(name, query_type):
        queries.append((name, query_type))
        res = AsyncResult()
        ans = answers.get(str(query_type).upper(), 'notfound')
        if isinstance(ans, str):
            res.set_exception(DNSError(ERRNOS[ans]))
        elif str(query_type).upper() == 'MX':
            res.set([_Rec(host=h, priority=p) for p, h in ans])
        else:
            res.set([_Rec(host=h) for h in ans])
        return res

    real = sdns.DNSResolver.query
    import slimta.relay.smtp.mx as mxmod
    mxmod.DNSResolver.query = staticmethod(stub_query)
    connects = []

    def creator(address):
        connects.append(address)
        # what socket.create_connection() does first with a host name (it raises UnicodeError for an empty or over-long label)
        address[0].encode('idna')
        return StagePeer({})

    relay = MxSmtpRelay(socket_creator=creator, context=StubClientContext(), ehlo_as='relay.example')
    env = main.make_env(1, 'x')
    env.recipients = [case['rcpt']]
    desc = repr(case)
    try:
        try:
            res = relay.attempt(env, case['attempts'])
        except BaseException as e:
            res = main.Raised(e)
    finally:
        mxmod.DNSResolver.query = real
        for r in relay._relayers.values():
            kill_relay(r)
    verdicts, bad = main.classify_result(res, list(env.recipients))
    if bad:
        kindsig = 'other-exception:%s' % type(res.exc).__name__ if isinstance(res, main.Raised) else 'malformed-result'
        return [('C11:%s:mx' % kindsig, '%s: %s' % (desc, bad))], True
    v = verdicts[case['rcpt']]
    rcpt = case['rcpt']
    # reference decision
    if '@' not in rcpt or not rcpt.rsplit('@', 1)[1]:
        want, dest = 'perm', None
    else:
        domain = rcpt.rsplit('@', 1)[1].lower()
        mx = answers.get('MX', 'notfound')
        if isinstance(mx, list) and mx and _badhost(sorted(mx)[case['attempts'] % len(mx)][1]):
            # a null MX (RFC 7505) or an exchange name no connection can be made to: a failure of either class
            want, dest = 'fail', None
        elif isinstance(mx, list) and mx:
            recs = sorted(mx)
            pr = recs[case['attempts'] % len(recs)][0]
            dest = set(h for p, h in recs if p == pr) if [p for p, _ in recs].count(pr) > 1 else {recs[case['attempts'] % len(recs)][1]}
            want = 'ok'
        elif mx in ('servfail', 'timeout'):
            want, dest = 'temp', None
        else:
            a = answers.get('A', 'notfound')
            if isinstance(a, list) and a:
                want, dest = 'ok', {domain}
            elif a in ('servfail', 'timeout'):
                want, dest = 'temp', None
            else:
                want, dest = 'perm', None
    out = []
    if want == 'fail':
        if v == 'ok':
            out.append(('C11:mx-decision', '%s: reported delivered' % desc))
    elif v != want:
        out.append(('C11:mx-decision', '%s: reported %s, expected %s' % (desc, v, want)))
    elif want == 'ok':
        if len(connects) != 1 or connects[0][0] not in dest or connects[0][1] != 25:
            out.append(('C11:mx-destination', '%s: connected to %r, expected one of %r port 25' % (desc, connects, sorted(dest))))
    return out, case['attempts'] > 0 or want != 'ok'


def _badhost(h):
    return h == '.' or any(not (0 < len(l) < 64) for l in h.rstrip('.').split('.'))


def mx_table():
    for host in ('.', 'mx..example.net', 'x' * 70 + '.example.net'):
        for attempts in (0, 1):
            yield {'rcpt': 'user@example.com', 'attempts': attempts, 'answers': {'MX': [[0, host]]}}
            yield {'rcpt': 'user@example.com', 'attempts': attempts, 'answers': {'MX': [[0, host], [10, 'mx2.example.net']]}}
    mxsets = [[(10, 'mx1.example.net'), (20, 'mx2.example.net'), (30, 'mx3.example.net')],
              [(20, 'b.example.net'), (5, 'a.example.net')],
              [(10, 'only.example.net')]]
    for mx in mxsets:
        for attempts in range(0, 5):
            yield {'rcpt': 'user@Example.COM', 'attempts': attempts, 'answers': {'MX': [list(x) for x in mx]}}
    for mxerr in ('nodata', 'notfound'):
        for a in (['192.0.2.1'], 'nodata', 'notfound', 'servfail'):
            yield {'rcpt': 'user@example.com', 'attempts': 0, 'answers': {'MX': mxerr, 'A': a}}
    for mxerr in ('servfail', 'timeout'):
        yield {'rcpt': 'user@example.com', 'attempts': 1, 'answers': {'MX': mxerr}}
    yield {'rcpt': 'nodomain', 'attempts': 0, 'answers': {}}
    yield {'rcpt': 'user@', 'attempts': 0, 'answers': {'MX': 'notfound', 'A': 'notfound'}}
    yield {'rcpt': 'user@example.com', 'attempts': 0, 'answers': {'MX': []}}


def run(ctx, index):
    for case in http_table():
        index += 1
        if not ctx.mine(index):
            continue
        f, nt = run_http_case(case)
        ctx.record(repr(case), nt, labels=['http'], case=dict(case, family='http'), failures=f)
    for surplus in ('same-segment', 'later'):
        index += 1
        if ctx.mine(index):
            case = {'surplus': surplus}
            f, nt = run_http_surplus_case(case)
            ctx.record(repr(case), nt, labels=['http-surplus'], case=dict(case, family='http-surplus'), failures=f)
    for case in mx_table():
        index += 1
        if not ctx.mine(index):
            continue
        f, nt = run_mx_case(case)
        ctx.record(repr(case), nt, labels=['mx'], case=dict(case, family='mx'), failures=f)


def replay(fam, case):
    if fam == 'http':
        if not isinstance(case.get('status'), int) or case.get('fault', 'none') not in HTTP_FAULTS:
            return []
        case.setdefault('reason', 'X')
        f, _ = run_http_case(case)
        return f
    if fam == 'http-surplus':
        if case.get('surplus') not in ('same-segment', 'later'):
            return []
        return run_http_surplus_case({'surplus': case['surplus']})[0]
    if fam == 'mx':
        if not isinstance(case.get('rcpt'), str) or not isinstance(case.get('answers'), dict):
            return []
        ans = {}
        for k, v in case['answers'].items():
            if isinstance(v, str) and v not in ERRNOS:
                return []
            if isinstance(v, list) and k == 'MX':
                v = [(int(p), str(h)) for p, h in v]
            ans[k] = v
        f, _ = run_mx_case(dict(case, answers=ans, attempts=int(case.get('attempts', 0))))
        return f
    return []
