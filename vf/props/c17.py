"""C17 - replies survive the wire: encode/parse round trip and exact consumption."""
import re
import itertools

from hypothesis import strategies as st

from vf import hyp
from vf.runner import hexb, unhex
from vf.transport import ScriptedSocket, cut

from slimta.smtp.io import IO
from slimta.smtp.reply import Reply
from slimta.smtp import BadReply, ConnectionLost

ID = 'C17'
LEVEL = 'exploration'
RULE = ('round trip: Hypothesis draws 1..3 replies (code 200..599, Unicode text with CR/LF/CRLF, ESC-looking '
        'prefixes, enhanced codes given/default/disabled) and a segmentation (burst, byte-wise, every single cut '
        'for short streams, random cuts); malformed: every string over {2,5,0,SP,-,a,CR,LF,0xff} up to length '
        '6 (quick) / 7 (thorough) judged against a reference line grammar; multi-line replies with differing codes or with one junk line (empty, blank, no reply line, bare or truncated code) inserted at every position, under every single cut, line-boundary cuts and byte-wise delivery. non-trivial = multi-line or pipelined '
        'or cut inside a line (round trip), contains a complete line (malformed); distinct = distinct input bytes+cuts')
ASSUMPTIONS = ['text is compared after normalising LF / CRLF to CRLF (documented behaviour of send_reply)',
               'first line of a text does not begin with white space (property domain)',
               'a bare "ddd" line without separator and codes outside 100..599 are gray at the IO level']
EXHAUSTIVE_NOTE = 'malformed inputs: alphabet {2,5,0,SP,-,a,CR,LF,0xff}, all strings up to length 6 (quick) / 7 (thorough)'

MAL_ALPHABET = [b'2', b'5', b'0', b' ', b'-', b'a', b'\r', b'\n', b'\xff']


def norm(text):
    return re.sub('\r?\n', '\r\n', text)


def make_reply(code, text, mode):
    if mode.startswith('late:'):
        # the code is changed after the message (and its enhanced status code) was set, as handlers do with a prepared reply
        r = Reply(mode[5:], text)
        r.code = code
        return r
    if mode == 'msgfirst':
        r = Reply()
        r.message = text
        r.code = code
        return r
    if mode == 'nlfirst':
        # an asynchronous reply (like the predefined 421 on timeout): an empty line is sent first
        r = Reply(code, text)
        r.newline_first = True
        return r
    r = Reply(code, text)
    if mode == 'disabled':
        r.enhanced_status_code = False
    return r


ESC_LOOK = re.compile(r'^[245]\.\d\d?\d?\.\d\d?\d?(\s|$)')
ONLY_ESC = re.compile(r'^[245]\.\d\d?\d?\.\d\d?\d?\s*$')


def judge_roundtrip(replies, cuts):
    """replies: list of (code, text, mode); cuts: offsets into the whole stream."""
    out = []
    wires = []
    rendered = []
    try:
        for code, text, mode in replies:
            sock = ScriptedSocket([])
            io = IO(sock, ('peer', 1))
            r = make_reply(code, text, mode)
            rendered.append(r.message)
            esc = r.enhanced_status_code
            if esc and esc[0] != code[0]:
                out.append(('C17:esc-class-sender', 'code %s esc %s' % (code, esc)))
            r.send(io, flush=True)
            wires.append(sock.output())
    except Exception as e:
        return [('C17:send-exception:%s' % type(e).__name__, '%r: %r' % (replies, e))]
    stream = b''.join(wires)
    segs = []
    for s in cut(stream, cuts):
        for i in range(0, len(s), 4096):
            segs.append(s[i:i + 4096])
    # IO level and Reply level on two independent readers
    for level in ('io', 'reply'):
        sock = ScriptedSocket(segs)
        io = IO(sock, ('peer', 1))
        consumed = 0
        for idx, (code, text, mode) in enumerate(replies):
            consumed += len(wires[idx])
            need = 0
            have = 0
            while have < consumed:
                have += len(segs[need])
                need += 1
            try:
                if level == 'io':
                    gcode, gtext = io.recv_reply()
                    exp = norm(rendered[idx])
                    resc = None
                else:
                    if ONLY_ESC.match(text):
                        # the Reply object has no text left to render: IO level only
                        io.recv_reply()
                        continue
                    r = Reply()
                    if mode in ('disabled', 'recvoff'):
                        # 'recvoff': the receiving object has enhanced status codes switched off (as the library's client does for
                        # banner and EHLO replies) while the sender wrote one: the text must come back as it was written
                        r.enhanced_status_code = False
                    r.recv(io)
                    gcode, gtext = r.code, r.message
                    exp = norm(rendered[idx])
                    resc = r.enhanced_status_code
            except Exception as e:
                out.append(('C17:roundtrip-%s-exception:%s' % (level, type(e).__name__),
                            'reply #%d %r cuts=%r: %r' % (idx, replies[idx], cuts[:8], e)))
                break
            if gcode != code or gtext != exp:
                out.append(('C17:roundtrip-%s-mismatch' % level,
                            'reply #%d sent (%r, %r) got (%r, %r)' % (idx, code, exp, gcode, gtext)))
            if resc and resc[0] != gcode[0]:
                out.append(('C17:esc-class-receiver', 'code %s esc %s' % (gcode, resc)))
            left = io.recv_buffer + sock.unread()
            if left != stream[consumed:]:
                out.append(('C17:consumption-%s' % level,
                            'after reply #%d left %r expected %r' % (idx, left[:50], stream[consumed:][:50])))
                break
            if sock.recv_calls > need:
                out.append(('C17:read-past-reply-%s' % level,
                            'reply #%d: %d recv calls, %d needed' % (idx, sock.recv_calls, need)))
                break
    return out


# -- reference grammar for malformed inputs -------------------------------------

REF_LINE = re.compile(br'^(\d\d\d)([ \t-])(.*)$', re.S)


def classify(data):
    """Reference decision for a byte string fed as a whole, then EOF.

    returns (verdict, consumed): verdict in 'valid', 'invalid', 'gray', 'incomplete'
    consumed = number of bytes of the first reply when valid."""
    pos = 0
    code = None
    texts = []
    while True:
        nl = data.find(b'\n', pos)
        if nl == -1:
            return 'incomplete', None
        line = data[pos:nl]
        if line.endswith(b'\r'):
            line = line[:-1]
        pos = nl + 1
        if line == b'' and code is None:
            continue            # empty lines before a reply: the library itself sends one in front of asynchronous replies (421 on timeout)
        m = REF_LINE.match(line)
        if not m and re.match(br'^\d\d\d$', line):
            m = REF_LINE.match(line + b' ')     # the bare code: Reply-code [ SP textstring ] CRLF
        if not m:
            return 'invalid', None
        if code is not None and m.group(1) != code:
            return 'invalid', None
        code = m.group(1)
        texts.append(m.group(3))
        if m.group(2) != b'-':
            try:
                b'\r\n'.join(texts).decode('utf-8')
            except UnicodeDecodeError:
                return 'invalid', None
            return 'valid', pos


PREFIX = b'250 2.0.0 earlier reply\r\n'


def judge_malformed(data, cuts=(), prefixed=False):
    """prefixed: the input follows an earlier, well-formed reply in the same segment (the reply of a pipelined predecessor)
    which is consumed first - the verdict on `data` must not depend on whether it was already buffered."""
    if not prefixed and data:
        f = judge_malformed(data, cuts, prefixed=True)
        if f:
            return [(sig + ':after-buffered-reply', msg) for sig, msg in f]
    verdict, consumed = classify(data)
    if prefixed:
        sock = ScriptedSocket(cut(PREFIX + data, tuple(c + len(PREFIX) for c in cuts)))
        io = IO(sock, ('peer', 1))
        try:
            first = io.recv_reply()
        except Exception as e:
            return [('C17:earlier-reply-lost:%s' % type(e).__name__, '%r: %r' % (data, e))]
        if first != ('250', '2.0.0 earlier reply'):
            return [('C17:earlier-reply-changed', '%r: %r' % (data, first))]
    else:
        sock = ScriptedSocket(cut(data, cuts))
        io = IO(sock, ('peer', 1))
    try:
        got = io.recv_reply()
        outcome = 'returned'
    except BadReply:
        outcome = 'badreply'
    except ConnectionLost:
        outcome = 'more'
    except Exception as e:
        return [('C17:malformed-exception:%s' % type(e).__name__, '%r: %r' % (data, e))]
    out = []
    if verdict == 'valid':
        if outcome != 'returned':
            out.append(('C17:valid-reply-not-returned', '%r -> %s' % (data, outcome)))
        else:
            left = io.recv_buffer + sock.unread()
            if left != data[consumed:]:
                out.append(('C17:malformed-consumption', '%r left %r' % (data, left)))
            if got[0].encode() != data.lstrip(b'\r\n')[:3]:
                out.append(('C17:malformed-code', '%r -> %r' % (data, got)))
            # the Reply object: a code that is not a reply code must be a bad reply, nothing else
            sock2 = ScriptedSocket(cut(data, cuts))
            try:
                Reply().recv(IO(sock2, ('peer', 1)))
            except BadReply:
                pass
            except Exception as e:
                out.append(('C17:reply-recv-exception:%s' % type(e).__name__, '%r: %r' % (data, e)))
    elif verdict == 'invalid':
        if outcome != 'badreply':
            out.append(('C17:malformed-not-rejected:%s' % outcome, '%r -> %s' % (data, outcome)))
    elif verdict == 'incomplete':
        if outcome != 'more':
            out.append(('C17:partial-reply-%s' % outcome, '%r -> %s' % (data, outcome)))
    return out


def malformed_exhaustive(ctx, maxlen):
    index = 0
    for n in range(1, maxlen + 1):
        for letters in itertools.product(MAL_ALPHABET, repeat=n):
            index += 1
            if not ctx.mine(index):
                continue
            data = b''.join(letters)
            f = judge_malformed(data)
            # a second segmentation: byte-wise
            if not f and n <= 5:
                f = judge_malformed(data, tuple(range(1, n)))
            ctx.record(data, b'\n' in data, labels=('malformed-exhaustive',),
                       case=lambda: {'kind': 'malformed', 'data': hexb(data), 'cuts': []}, failures=f)


def malformed_multiline(ctx):
    """Multi-line replies whose lines carry equal or different codes, under every single cut, every line-boundary cut and
    byte-wise delivery (the code check must not depend on where the stream was cut)."""
    index = 0
    for nlines in (2, 3):
        for codes in itertools.product((b'250', b'251', b'550'), repeat=nlines):
            for eol in (b'\r\n', b'\n'):
                for last_sep in (b' ', b'-'):
                    lines = []
                    for k, c in enumerate(codes):
                        sep = b'-' if k < nlines - 1 else last_sep
                        lines.append(c + sep + b'line%d' % k + eol)
                    data = b''.join(lines) + b'250 next\r\n'
                    index += 1
                    if not ctx.mine(index):
                        continue
                    f = []
                    cutsets = [()] + [(c,) for c in range(1, len(data))] + [tuple(range(1, len(data)))]
                    bounds = []
                    pos = 0
                    for l in lines:
                        pos += len(l)
                        bounds.append(pos)
                    cutsets.append(tuple(bounds))
                    bad_cuts = ()
                    for cuts in cutsets:
                        f = judge_malformed(data, cuts)
                        if f:
                            bad_cuts = cuts
                            break
                    ctx.record((data, 'multiline'), True, labels=['malformed-multiline', classify(data)[0]],
                               case=lambda: {'kind': 'malformed', 'data': hexb(data), 'cuts': list(bad_cuts)}, failures=f)


def malformed_inserted(ctx):
    """A well-formed multi-line reply with one extra line (empty, blank, not a reply line, a bare code, a truncated code)
    inserted at every position, under every single cut, the cuts at all line boundaries and byte-wise delivery: an empty
    line is skipped only in front of a reply, never inside one, wherever the reads happen to end."""
    index = 0
    junk = (b'', b' ', b'abc', b'250', b'25', b'250x', b'-', b'251-z')
    for nlines in (2, 3):
        for eol in (b'\r\n', b'\n'):
            for ins in junk:
                for at in range(nlines + 1):
                    lines = [b'250' + (b'-' if k < nlines - 1 else b' ') + b'l%d' % k + eol for k in range(nlines)]
                    lines.insert(at, ins + eol)
                    data = b''.join(lines) + b'250 next\r\n'
                    index += 1
                    if not ctx.mine(index):
                        continue
                    bounds, pos = [], 0
                    for l in lines:
                        pos += len(l)
                        bounds.append(pos)
                    cutsets = [()] + [(c,) for c in range(1, len(data))] + [tuple(range(1, len(data))), tuple(bounds)]
                    cutsets += [(a, b) for a in bounds for b in bounds if a < b]
                    f, bad_cuts = [], ()
                    for cuts in cutsets:
                        f = judge_malformed(data, cuts)
                        if f:
                            bad_cuts = cuts
                            break
                    ctx.record((data, 'inserted'), True, labels=['malformed-inserted-line', classify(data)[0]],
                               case=lambda: {'kind': 'malformed', 'data': hexb(data), 'cuts': list(bad_cuts)}, failures=f)


# -- generators -----------------------------------------------------------------

_codes = st.one_of(st.integers(200, 599).map(str),
                   st.sampled_from(['250', '220', '354', '421', '450', '550', '334', '235', '500']))
_esc = st.builds(lambda a, b, c: '%s.%s.%s' % (a, b, c), st.sampled_from('245'),
                 st.integers(0, 999), st.integers(0, 999))
_word = st.one_of(st.text(min_size=1, max_size=12),
                  st.sampled_from(['Ok', 'a', '-', ' ', '\t', '2.0.0', '5.1.1x', '250', '250-x', '.', 'é',
                                   ' ', '\x85', '\x0b', '\x00']))
_brk = st.sampled_from(['\r\n', '\n', '\r', '\r\r\n', '\n\n', '\r\n\r\n'])


@st.composite
def reply_text(draw):
    kind = draw(st.sampled_from(['plain', 'esc', 'esc', 'plain', 'onlyesc']))
    first = draw(_word)
    while first[:1].isspace() or first == '' or first[0] in '\r\n':
        first = draw(st.sampled_from(['Ok', 'x', '250']))
    parts = [first]
    for _ in range(draw(st.integers(0, 4))):
        parts.append(draw(st.one_of(_word, _brk, _brk)))
    body = ''.join(parts)
    if kind == 'esc':
        return draw(_esc) + draw(st.sampled_from([' ', '  ', '\t'])) + body
    if kind == 'onlyesc':
        return draw(_esc) + draw(st.sampled_from(['', ' ', ' \t']))
    return body


@st.composite
def roundtrip_case(draw):
    n = draw(st.integers(1, 3))
    replies = []
    for _ in range(n):
        text = draw(reply_text())
        mode = draw(st.sampled_from(['auto', 'auto', 'disabled', 'late:250', 'late:451', 'late:550', 'msgfirst', 'nlfirst', 'recvoff']))
        if mode == 'disabled' and ESC_LOOK.match(text):
            mode = 'auto'
        replies.append((draw(_codes), text, mode))
    style = draw(st.sampled_from(['burst', 'bytes', 'cuts', 'single']))
    cuts = sorted(set(draw(st.lists(st.integers(1, 200), max_size=8))))
    return replies, style, cuts


def roundtrip_random(ctx, n):
    def one(value):
        replies, style, cuts = value
        est = sum(len(t.encode('utf-8')) + 12 * (t.count('\n') + 1) for _, t, _ in replies) + 8
        if style == 'burst':
            cuts = []
        elif style == 'bytes':
            cuts = list(range(1, est))
        elif style == 'single':
            cuts = cuts[:1]
        f = judge_roundtrip(replies, cuts)
        multi = any('\n' in t for _, t, _ in replies)
        nt = multi or len(replies) > 1 or bool(cuts)
        labels = ['roundtrip', 'style=' + style, 'n=%d' % len(replies)]
        if multi:
            labels.append('multiline')
        ctx.record((tuple(replies), tuple(cuts)), nt, labels=labels,
                   case=lambda: {'kind': 'roundtrip', 'replies': [list(r) for r in replies], 'cuts': list(cuts)},
                   failures=f)
    hyp.drive(ctx, roundtrip_case(), one, n)


def roundtrip_allcuts(ctx, n):
    """Short streams: every single cut position and byte-wise."""
    def one(value):
        replies, _, _ = value
        replies = replies[:2]
        est = sum(len(t.encode('utf-8')) + 12 * (t.count('\n') + 1) for _, t, _ in replies) + 8
        if est > 120:
            replies = replies[:1]
        f = []
        for c in range(0, min(est, 120)):
            f = judge_roundtrip(replies, [c] if c else [])
            if f:
                break
        ctx.record((tuple(replies), 'allcuts'), True, labels=['roundtrip-allcuts'],
                   case=lambda: {'kind': 'roundtrip', 'replies': [list(r) for r in replies], 'cuts': [c]},
                   failures=f)
    hyp.drive(ctx, roundtrip_case(), one, n, salt=1)


def malformed_random(ctx, n):
    piece = st.one_of(st.sampled_from([b'250', b'250-', b'250 ', b'550 ', b'25', b'\r\n', b'\n', b'\r', b'-', b' ',
                                       b'\xff', b'\xc3\xa9', b'\xc3', b'abc', b'2.0.0 ', b'250\t', b'000 ', b'999-']),
                      st.binary(min_size=1, max_size=6))
    strat = st.tuples(st.lists(piece, min_size=1, max_size=10).map(b''.join),
                      st.lists(st.integers(1, 60), max_size=5).map(lambda l: tuple(sorted(set(l)))))

    def one(value):
        data, cuts = value
        f = judge_malformed(data, cuts)
        ctx.record((data, cuts), b'\n' in data, labels=['malformed-random', classify(data)[0]],
                   case=lambda: {'kind': 'malformed', 'data': hexb(data), 'cuts': list(cuts)}, failures=f)
    hyp.drive(ctx, strat, one, n, salt=2)


def run_shard(ctx):
    if ctx.thorough:
        from vf import fuzz
        fuzz.run(ctx, ID, 90, FUZZ_SEEDS)
    malformed_exhaustive(ctx, 7 if ctx.thorough else 6)
    malformed_multiline(ctx)
    malformed_inserted(ctx)
    roundtrip_random(ctx, ctx.n(20000, 400000))
    roundtrip_allcuts(ctx, ctx.n(2000, 40000))
    malformed_random(ctx, ctx.n(20000, 400000))


def replay(case):
    if case.get('kind') == 'malformed':
        return judge_malformed(unhex(case['data']), tuple(case.get('cuts', [])))
    replies = [(str(r[0]), str(r[1]), str(r[2])) for r in case['replies']]
    for code, text, mode in replies:
        if not text or text[:1].isspace() or not re.match(r'^[2345]\d\d$', code):
            return []
        if mode == 'disabled' and ESC_LOOK.match(text):
            return []
        if mode not in ('auto', 'disabled', 'msgfirst', 'nlfirst', 'recvoff') and not re.match(r'^late:[2345]\d\d$', mode):
            return []
    return judge_roundtrip(replies, sorted(set(int(c) for c in case.get('cuts', []))))


# -- coverage-guided tier (atheris) ---------------------------------------------------------------------

def fuzz_target(data):
    if len(data) < 2:
        return None, []
    ncuts = data[0] % 5
    cuts = tuple(sorted(set(c for c in data[1:1 + ncuts] if c)))
    payload = data[1 + ncuts:]
    return {'kind': 'malformed', 'data': hexb(payload), 'cuts': list(cuts)}, judge_malformed(payload, cuts)


FUZZ_SEEDS = [b'\x00250 ok\r\n', b'\x01\x05250-a\r\n250 b\r\n', b'\x00550 5.1.1 no\r\n250 next\r\n']
