"""C12 - a queued message is attempted when due, never early, and never forgotten."""
from vf import qm, qmgen
from vf.props import c03

ID = 'C12'
LEVEL = 'exploration'
RULE = ('queue machine under virtual time (see C03), actions weighted towards timing: backoff tables with 0 and ties, clock '
        'advances to just before / exactly / after a due time (multiples of 1/8 s), flush() on a started queue, clean restart, '
        'announcements, bounded pools; invariants at every quiescent point + fair drain. non-trivial = a flush with a waiting '
        'message, or >=2 attempts of one message after a timer tick, or a restart with stored messages; distinct = distinct (config, actions)')
ASSUMPTIONS = c03.ASSUMPTIONS + ['due times are the timestamps last written to storage for the id (write / set_timestamp)',
                                 'virtual clock: slimta.queue.time and slimta.queue.Event are substituted from the harness side']

OWN = {'C12'}
WEIGHTS = {'enqueue': 3, 'release': 12, 'tick': 5, 'advance': 4, 'flush': 3, 'announce': 1, 'restart': 2, 'serve': 6, 'storage': 2, 'answer': 4}


def nontrivial(labels, stats, cfg, acts):
    return stats['max_attempts_one_msg'] >= 2 and bool(labels & {'flush', 'tick', 'restart'})


def run_shard(ctx):
    bks = c03.backends(ctx)
    qmgen.drive_sequences(ctx, OWN, 4 if ctx.thorough else 3, nontrivial)
    qmgen.drive_schedule_dfs(ctx, OWN, 9 if ctx.thorough else 6, nontrivial)
    strat = qmgen.history(qmgen.configs(bks, pools=True, announce=True), WEIGHTS)
    qmgen.drive_histories(ctx, OWN, strat, ctx.n(2500, 40000), nontrivial)
    qmgen.drive_histories(ctx, OWN, qmgen.burst_history(), ctx.n(1500, 25000), nontrivial, salt=7)
    qmgen.drive_histories(ctx, OWN, qmgen.restart_race_history(), ctx.n(600, 10000), nontrivial, salt=8)
    qmgen.drive_histories(ctx, OWN, qmgen.saturated_pool_history(), ctx.n(600, 10000), nontrivial, salt=9)

    qmgen.drive_histories(ctx, OWN, qmgen.flush_busy_history(), ctx.n(600, 10000), nontrivial, salt=10)
    qmgen.drive_histories(ctx, OWN, qmgen.announce_window_history(), ctx.n(800, 12000), nontrivial, salt=11)
    qmgen.drive_histories(ctx, OWN, qmgen.double_report_history(), ctx.n(800, 12000), nontrivial, salt=13)
    qmgen.drive_histories(ctx, OWN, qmgen.enqueue_vs_load_history(), ctx.n(800, 12000), nontrivial, salt=14)
    qmgen.drive_histories(ctx, OWN, qmgen.late_wake_history(), ctx.n(400, 6000), nontrivial, salt=15)
    qmgen.drive_histories(ctx, OWN, qmgen.own_write_announced_history(), ctx.n(600, 10000), nontrivial, salt=16)
    qmgen.drive_histories(ctx, OWN, qmgen.flush_blocked_spawn_history(), ctx.n(500, 8000), nontrivial, salt=17)
    qmgen.drive_histories(ctx, OWN, qmgen.sched_hold_history(), ctx.n(600, 10000), nontrivial, salt=19)


def replay(case):
    fails, _, _ = qm.run_history(case['cfg'], case.get('actions', []), OWN)
    return fails
