"""C20 - envelope parsing keeps the body byte-exact and the headers intact."""
import re
import copy
import pickle
import email
import email.policy
from email.encoders import encode_base64, encode_quopri

from hypothesis import strategies as st

from vf import hyp
from vf.runner import hexb, unhex

from slimta.envelope import Envelope

ID = 'C20'
LEVEL = 'exploration'
RULE = ('structured: constructive generator of well-formed header blocks (1..8 fields, ftext names, lines mostly <=78 bytes with boundary lengths 76..80 and long lines up to 998, '
        'folded continuation lines with non-blank text, 8-bit bytes, duplicates, CRLF or LF) + arbitrary body bytes; '
        'weak: arbitrary byte strings; 7bit: utf-8 text bodies with base64 / quoted-printable / no encoder, parsed into a fresh envelope or into one that already held and converted another message (also a copy / unpickled copy of it). '
        'non-trivial = folded or 8-bit or duplicate header, body starting with a blank line or containing NUL / lone CR, '
        'or (weak) input without a well-formed header block, or (7bit) body with 8-bit text; distinct = distinct input bytes')
ASSUMPTIONS = ['field bodies are drawn from HT, SP, 0x21-0x7e, 0x80-0xff (no C0 controls that str.splitlines treats as line breaks)',
               'values have no leading/trailing white space, continuation lines are not white-space only, lines <= 998 bytes (mostly <= 78)',
               'the stdlib email package is the trusted decoder for the 7-bit conversion oracle']


def ref_fields(block):
    """Reference RFC 5322 field parser on raw bytes -> [(name, value)] with CRLF-normalised folding."""
    fields = []
    for line in re.split(br'\r?\n', block):
        if line == b'':
            continue
        if line[:1] in (b' ', b'\t'):
            if not fields:
                return None
            fields[-1][1] += b'\r\n' + line
        else:
            if b':' not in line:
                return None
            name, rest = line.split(b':', 1)
            fields.append([name, rest.lstrip(b' \t')])
    return [(n, v) for n, v in fields]


def build(fields, eol, body):
    """fields: list of (name, sep, [line1, cont...]) -> bytes"""
    out = []
    for name, sep, lines in fields:
        out.append(name + b':' + sep + lines[0] + eol)
        for cont in lines[1:]:
            out.append(cont + eol)
    return b''.join(out) + eol + body


def judge_structured(block, eol, body):
    data = block + eol + body
    out = []
    try:
        env = Envelope('s@x', ['r@x'])
        env.parse(data)
        hdr, msg = env.flatten()
    except Exception as e:
        return [('C20:structured-exception:%s' % type(e).__name__, '%r: %r' % (data[:120], e))]
    if msg != body:
        out.append(('C20:body-changed', 'data=%r body=%r got=%r' % (data[:120], body[:60], msg[:60])))
    want = ref_fields(block)
    got = ref_fields(hdr)
    if want != got:
        out.append(('C20:headers-changed', 'block=%r flatten=%r' % (block[:160], hdr[:160])))
    if not hdr.endswith(b'\r\n\r\n') and want:
        out.append(('C20:header-terminator', 'flatten=%r' % hdr[-40:]))
    if re.search(br'(?<!\r)\n', hdr):
        out.append(('C20:header-line-endings', 'flatten=%r' % hdr[:160]))
    try:
        c = env.copy()
        if c.flatten() != (hdr, msg):
            out.append(('C20:copy-differs', 'data=%r' % data[:120]))
        c.recipients.append('z')
        c.headers['X-Mut'] = 'y'
        c.message = b'zz'
        if env.recipients != ['r@x'] or env.flatten() != (hdr, msg):
            out.append(('C20:copy-shares-state', 'data=%r' % data[:120]))
        p = pickle.loads(pickle.dumps(env, pickle.HIGHEST_PROTOCOL))
        if p.flatten() != (hdr, msg) or p.sender != 's@x' or p.recipients != ['r@x']:
            out.append(('C20:pickle-differs', 'data=%r' % data[:120]))
        p0 = pickle.loads(pickle.dumps(env, 0))
        if p0.flatten() != (hdr, msg):
            out.append(('C20:pickle0-differs', 'data=%r' % data[:120]))
        again = Envelope()
        again.parse(hdr + msg)
        if again.flatten() != (hdr, msg):
            out.append(('C20:not-a-fixed-point', 'data=%r second=%r' % (data[:120], again.flatten()[0][:120])))
    except Exception as e:
        out.append(('C20:structured-exception:%s' % type(e).__name__, '%r: %r' % (data[:120], e)))
    return out


def _site(exc):
    tb = exc.__traceback__
    while tb.tb_next is not None:
        tb = tb.tb_next
    return tb.tb_frame.f_code.co_name


def judge_weak(data):
    op = 'parse'
    try:
        env = Envelope('s', ['r'])
        env.parse(data)
        op = 'flatten'
        f = env.flatten()
        op = 'copy'
        c = env.copy()
        c.flatten()
        op = 'pickle'
        p = pickle.loads(pickle.dumps(env))
        p.flatten()
        if not isinstance(f[0], bytes) or not isinstance(f[1], bytes):
            return [('C20:weak-nonbytes', repr(data[:80]))]
    except Exception as e:
        return [('C20:weak-exception:%s:%s:%s' % (op, type(e).__name__, _site(e)), '%r: %r' % (data[:120], e))]
    return []


_PRIOR_ASCII = b'Content-Type: text/plain; charset=utf-8\r\nMIME-Version: 1.0\r\n\r\nplain ascii text\r\n'
_PRIOR_8BIT = b'Content-Type: text/plain; charset=utf-8\r\nMIME-Version: 1.0\r\n\r\nf\xc3\xbcr\r\n'


def _envelope_with_history(prior):
    """The Envelope object the message is parsed into: fresh, or one that already held another message which went through
    encode_7bit() (checked as ASCII, or converted), or a copy / unpickled copy of such an envelope. parse() replaces
    headers and message, so the verdict on the new message must not depend on that history."""
    env = Envelope('s', ['r'])
    if prior == 'none':
        return env
    first = _PRIOR_8BIT if 'converted' in prior else _PRIOR_ASCII
    env.parse(first)
    env.encode_7bit(encode_base64)
    if prior.startswith('copy-'):
        env = env.copy(['r'])
    elif prior.startswith('pickle-'):
        env = pickle.loads(pickle.dumps(env, pickle.HIGHEST_PROTOCOL))
    return env


def judge_7bit(text, encname, extra_headers, prior='none'):
    """text: str body with CRLF line ends; encname: 'base64' | 'qp' | 'none'."""
    body = text.encode('utf-8')
    block = b'Content-Type: text/plain; charset=utf-8\r\nMIME-Version: 1.0\r\n' + extra_headers
    data = block + b'\r\n' + body
    env = _envelope_with_history(prior)
    env.parse(data)
    before = env.flatten()
    is8 = any(b > 127 for b in body)
    enc = {'base64': encode_base64, 'qp': encode_quopri, 'none': None}[encname]
    out = []
    try:
        env.encode_7bit(enc)
        raised = None
    except UnicodeError as e:
        raised = e
    except Exception as e:
        return [('C20:7bit-exception:%s:%s' % (encname, type(e).__name__), '%r: %r' % (body[:80], e))]
    after = env.flatten()
    if not is8:
        if raised or after != before:
            out.append(('C20:7bit-body-touched', '%r' % body[:80]))
        return out
    if enc is None:
        if raised is None:
            out.append(('C20:8bit-passed-without-encoder', '%r' % body[:80]))
        elif after != before:
            out.append(('C20:envelope-changed-on-refusal', '%r' % body[:80]))
        return out
    if raised is not None:
        out.append(('C20:7bit-refused-with-encoder:' + encname, '%r: %r' % (body[:80], raised)))
        return out
    flat = after[0] + after[1]
    try:
        flat.decode('ascii')
    except UnicodeDecodeError:
        out.append(('C20:7bit-output-not-ascii:' + encname, '%r' % flat[:160]))
        return out
    msg = email.message_from_bytes(flat, policy=email.policy.default)
    try:
        got = msg.get_payload(decode=True).decode('utf-8')
    except Exception as e:
        out.append(('C20:7bit-undecodable:' + encname, '%r: %r' % (flat[:160], e)))
        return out
    n = lambda s: s.replace('\r\n', '\n')
    if n(got) != n(text):
        out.append(('C20:7bit-text-changed:' + encname, 'text=%r got=%r' % (text[:80], got[:80])))
    return out


# -- generators -----------------------------------------------------------------

_NAME_ALPHA = ''.join(chr(c) for c in range(33, 127) if chr(c) != ':')
_names = st.one_of(st.sampled_from([b'Subject', b'From', b'To', b'Date', b'Message-Id', b'Received', b'X-Test',
                                    b'Content-Type', b'MIME-Version', b'from', b'X', b'Fromage']),
                   st.text(alphabet=_NAME_ALPHA, min_size=1, max_size=20).map(lambda s: s.encode('ascii')))
_VALUE_BYTES = [9, 32] + list(range(0x21, 0x7f)) + list(range(0x80, 0x100))
_inner = st.lists(st.sampled_from(_VALUE_BYTES), max_size=70).map(bytes)
_ascii_inner = st.lists(st.sampled_from([9, 32] + list(range(0x21, 0x7f))), max_size=70).map(bytes)


@st.composite
def value_line(draw, maxlen, first):
    """A line of a field body: no leading/trailing white space for the first line;
    continuation lines start with SP/HT and contain non-blank text."""
    base = draw(st.one_of(_ascii_inner, _inner, st.sampled_from([b'hello world', b'a', b'=?utf-8?q?x?=', b'<a@b>',
                                                               b'text/plain; charset=utf-8', b'\xc3\xa9t\xc3\xa9', b'\xff\xfe',
                                                               b'text/plain; name*', b"a/b; x*0*=utf-8''a; x*1", b'a/b; =', b'a/b;;',
                                                               b'multipart/mixed', b'multipart/mixed; boundary', b'a/b; x*='])))
    base = base.strip(b' \t')
    if not first:
        if not base:
            base = b'x'
        base = draw(st.sampled_from([b' ', b'\t', b'  ', b' \t'])) + base
    return base[:maxlen].rstrip(b' \t') if len(base[:maxlen].strip(b' \t')) else (b'' if first else b' x')


@st.composite
def field(draw):
    name = draw(_names)
    sep = draw(st.sampled_from([b' ', b' ', b'', b'   ', b'\t']))
    room = 78 - len(name) - 1 - len(sep)
    first = draw(value_line(room, True))        # the whole first line may be exactly 78 bytes
    if draw(st.integers(0, 5)) == 0:
        # boundary: the first line is exactly 76, 77 or 78 bytes long
        want = draw(st.sampled_from([room, room, room - 1, room - 2, room + 1, room + 2, 200, 500, 990 - len(name)]))   # RFC 5322: <= 998
        filler = draw(st.sampled_from([b'x', b'ab ', b'\xc3\xa9b ', b'word, ', b'a@b.example, ']))
        first = (filler * 1000)[:want].strip(b' \t')
        first = first + b'z' * (want - len(first))
    lines = [first]
    for _ in range(draw(st.sampled_from([0, 0, 0, 1, 2]))):
        lines.append(draw(value_line(78, False)))
    # a field whose first line is empty must not be followed by nothing (value would be empty: fine)
    return name, sep, lines


_body = st.one_of(
    st.binary(max_size=200),
    st.lists(st.sampled_from([b'\r\n', b'\n', b'\r', b'.', b'.\r\n', b'\x00', b'line', b' ', b'\t', b'\xff', b'From x',
                              b'Subject: no\r\n', b'\r\n\r\n']), max_size=12).map(b''.join))


@st.composite
def structured_case(draw):
    fields = draw(st.lists(field(), min_size=1, max_size=8))
    if draw(st.booleans()) and len(fields) < 8:
        fields.append(fields[draw(st.integers(0, len(fields) - 1))])
    if draw(st.integers(0, 5)) == 0:
        # a content type whose body the MIME parser would want to look into (the envelope only ever parses the header block)
        ct = draw(st.sampled_from([b'message/rfc822', b'message/global', b'message/partial; id="a@b"; number=1; total=2',
                                   b'message/delivery-status', b'message/external-body; access-type=local-file',
                                   b'multipart/mixed; boundary="x"', b'multipart/alternative; boundary=x', b'multipart/digest',
                                   b'text/plain; charset=utf-8', b'application/octet-stream']))
        fields.insert(draw(st.integers(0, len(fields))), (draw(st.sampled_from([b'Content-Type', b'content-type'])), b' ', [ct]))
    eol = draw(st.sampled_from([b'\r\n', b'\r\n', b'\n']))
    body = draw(_body)
    block = build(fields, eol, b'')[:-len(eol)]
    return block, eol, body, fields


def structured_nontrivial(block, body, fields):
    names = [f[0].lower() for f in fields]
    return (any(len(f[2]) > 1 for f in fields) or any(b > 127 for b in block) or len(set(names)) < len(names)
            or body[:1] in (b'\r', b'\n') or b'\x00' in body or re.search(br'\r(?!\n)', body) is not None)


def run_structured(ctx, n):
    def one(v):
        block, eol, body, fields = v
        f = judge_structured(block, eol, body)
        labels = ['structured', 'eol=' + ('crlf' if eol == b'\r\n' else 'lf')]
        if any(len(x[2]) > 1 for x in fields):
            labels.append('folded')
        if any(b > 127 for b in block):
            labels.append('8bit-header')
        ctx.record((block, eol, body), structured_nontrivial(block, body, fields), labels=labels,
                   case=lambda: {'kind': 'structured', 'block': hexb(block), 'eol': hexb(eol), 'body': hexb(body)},
                   failures=f)
    hyp.drive(ctx, structured_case(), one, n)


_weak = st.one_of(
    st.binary(max_size=300),
    st.lists(st.sampled_from([b'\r\n', b'\n', b'\r', b':', b' ', b'\t', b'A', b'Subject', b'From ', b'\xff', b'\x00', b'=?', b'?=',
                              b'Content-Type: multipart/mixed; boundary=x', b'--x', b'--x--', b'\x0b', b'\x0c', b'\x1c', b'x' * 100,
                              b'Content-Transfer-Encoding: base64', b'MIME-Version: 1.0', b'\xc3',
                              b'To: ', b'From: ', b'Sender: ', b'Cc: ', b'Date: ', b'Message-Id: ', b'Received: ', b'Content-Type: ',
                              b'"', b'<', b'>', b',', b';', b'(', b')', b'@', b'.', b'\\', b'"Example Widgets Ltd." Inc.: ',
                              b'alice@example.com, bob@example.com, carol@example.com;', b'undisclosed-recipients:;', b'=?utf-8?b?',
                              b'a@b.example', b'Group Name: ', b'"quoted, name" <q@example.org>, ', b'x' * 30,
                              b'Content-Disposition: ', b'text/plain', b'; charset', b'; name*', b'*=', b'*0*=', b"utf-8''x", b'=']),
             max_size=25).map(b''.join))


def run_weak(ctx, n):
    def one(data):
        f = judge_weak(data)
        wf = ref_fields(re.split(br'\r?\n\r?\n', data, 1)[0])
        ctx.record(data, not wf, labels=['weak'], case=lambda: {'kind': 'weak', 'data': hexb(data)}, failures=f)
    hyp.drive(ctx, _weak, one, n, salt=1)


_text_line = st.one_of(st.text(alphabet=st.characters(blacklist_categories=('Cs', 'Cc')), max_size=40),
                       st.sampled_from(['', 'héllo wörld', 'plain ascii', '=20', 'a=b', '.', 'x' * 90, 'é' * 50, ' trailing ',
                                        'From me', '\t']))


@st.composite
def sevenbit_case(draw):
    lines = draw(st.lists(_text_line, max_size=6))
    text = '\r\n'.join(lines)
    if draw(st.booleans()) and text:
        text += '\r\n'
    enc = draw(st.sampled_from(['base64', 'qp', 'none']))
    # the transfer-encoding label may come from the sender and need not be truthful for a raw 8-bit body
    extra = draw(st.sampled_from([b'', b'Subject: x\r\n', b'Content-Transfer-Encoding: 8bit\r\n', b'Content-Transfer-Encoding: 7bit\r\n',
                                  b'content-transfer-encoding: 7BIT\r\n', b'Content-Transfer-Encoding: binary\r\n',
                                  b'Content-Transfer-Encoding: base64\r\n', b'Content-Transfer-Encoding: quoted-printable\r\n']))
    prior = draw(st.sampled_from(PRIORS))
    return text, enc, extra, prior


PRIORS = ['none', 'none', 'none', 'ascii', 'converted', 'copy-ascii', 'copy-converted', 'pickle-ascii', 'pickle-converted']


def run_7bit(ctx, n):
    def one(v):
        text, enc, extra, prior = v
        f = judge_7bit(text, enc, extra, prior)
        if f and prior != 'none':
            f = [(sig + ':reused-envelope', msg + ' [envelope history: %s]' % prior) for sig, msg in f]
        is8 = any(ord(c) > 127 for c in text)
        ctx.record((text, enc, extra, prior), is8, labels=['7bit', 'enc=' + enc, '8bit-text' if is8 else 'ascii-text', 'envelope-history=' + prior],
                   case=lambda: {'kind': '7bit', 'text': text, 'enc': enc, 'extra': hexb(extra), 'prior': prior}, failures=f)
    hyp.drive(ctx, sevenbit_case(), one, n, salt=2)


def run_shard(ctx):
    if ctx.thorough:
        from vf import fuzz
        fuzz.run(ctx, ID, 90, FUZZ_SEEDS)
    run_structured(ctx, ctx.n(8000, 200000))
    run_weak(ctx, ctx.n(20000, 400000))
    run_7bit(ctx, ctx.n(3000, 60000))


def in_domain(block):
    """Is the block inside the property's well-formed domain? (used when replaying minimised cases)"""
    lines = re.split(br'\r?\n', block)
    if not lines or lines[0][:1] in (b' ', b'\t', b''):
        return False
    for line in lines:
        if len(line) > 78 or line == b'' or not line.strip(b' \t'):
            return False
        if any(c < 32 and c != 9 for c in line) or 127 in line:
            return False
        if line[:1] not in (b' ', b'\t'):
            m = re.match(br'^([\x21-\x39\x3b-\x7e]+):([ \t]*)(.*)$', line)
            if not m or m.group(3) != m.group(3).strip(b' \t'):
                return False
            if len(m.group(1)) + 2 + len(m.group(3)) > 78:
                return False
        elif line != line.rstrip(b' \t'):
            return False
    return True


def replay(case):
    kind = case.get('kind')
    if kind == 'weak':
        return judge_weak(unhex(case['data']))
    if kind == '7bit':
        if '\n' in case['text'].replace('\r\n', '') or '\r' in case['text'].replace('\r\n', ''):
            return []
        prior = case.get('prior', 'none')
        if prior not in PRIORS:
            return []
        f = judge_7bit(case['text'], case['enc'], unhex(case['extra']), prior)
        return [(sig + ':reused-envelope', msg) for sig, msg in f] if prior != 'none' else f
    block = unhex(case['block'])
    eol = unhex(case['eol'])
    if eol not in (b'\r\n', b'\n') or not in_domain(block):
        return []
    return judge_structured(block, eol, unhex(case['body']))


# -- coverage-guided tier (atheris) ---------------------------------------------------------------------

def fuzz_target(data):
    return {'kind': 'weak', 'data': hexb(data)}, judge_weak(data)


FUZZ_SEEDS = [b'Subject: x\r\nFrom: a@b\r\n\r\nbody\r\n', b'Content-Type: multipart/mixed; boundary=x\r\n\r\n--x\r\n\r\na\r\n--x--\r\n',
              b'Subject: =?utf-8?q?x?=\r\n folded\r\n\r\n']
