"""C08 - nothing crosses the STARTTLS boundary; AUTH only when permitted."""
import os
import base64

import gevent
from gevent import socket as gsocket
from gevent import ssl as gssl
from hypothesis import strategies as st

from vf import hyp
from vf import smtpmodel as sm

from slimta.smtp.server import Server
from slimta.smtp.client import Client
from slimta.smtp import ConnectionLost

ID = 'C08'
REALTIME = True      # runs on the wall clock: an unreproducible failure is re-run before it counts (see runner)
LEVEL = 'exploration'
RULE = ('real TLS handshakes over socketpairs (committed self-signed certificate). server: Hypothesis draws a plaintext prefix (EHLO; '
        'optionally MAIL, RCPT), one segment "STARTTLS CRLF" + 0..3 injected plaintext lines (or a partial line), then commands over '
        'TLS; immediate-TLS variant. client: Client.starttls() against a scripted peer that appends plaintext reply lines behind its '
        '220. AUTH table: mechanism in {PLAIN, LOGIN, CRAM-MD5, unknown} x argument shape {initial response, challenge flow, cancel, bad '
        'base64, "=", no argument} x position {before EHLO, normal, after success, inside a transaction, after an abandoned LOGIN exchange, after a refused AUTH for an unknown mechanism that carried an initial response} x {no TLS, STARTTLS, immediate '
        'TLS} x Unicode credentials x validator verdict. non-trivial = non-empty injection, or an open transaction before STARTTLS, or '
        'a non-happy AUTH shape/position; distinct = distinct case description')
ASSUMPTIONS = ['replies are read in lock step with a 3 s guard per reply (a missing reply is a violation, slowness is not)',
               'CRAM-MD5 credentials are compared through creds.check_secret()']

HERE = os.path.dirname(os.path.dirname(os.path.abspath(__file__)))
CERT = os.path.join(HERE, 'certs', 'cert.pem')
KEY = os.path.join(HERE, 'certs', 'key.pem')

_server_ctx = None
_client_ctx = None


def server_ctx():
    global _server_ctx
    if _server_ctx is None:
        _server_ctx = gssl.SSLContext(gssl.PROTOCOL_TLS_SERVER)
        _server_ctx.load_cert_chain(CERT, KEY)
    return _server_ctx


def client_ctx():
    global _client_ctx
    if _client_ctx is None:
        _client_ctx = gssl.SSLContext(gssl.PROTOCOL_TLS_CLIENT)
        _client_ctx.check_hostname = False
        _client_ctx.verify_mode = gssl.CERT_NONE
    return _client_ctx


class Handlers(object):
    """Records every callback with the encryption flag of the session at that moment."""

    def __init__(self, verdict_ok=True):
        self.trace = []
        self.server = None
        self.verdict_ok = verdict_ok

    def _rec(self, name, *args):
        self.trace.append((name, args, bool(self.server.encrypted) if self.server else None))

    def BANNER_(self, reply):
        self._rec('BANNER')

    def EHLO(self, reply, ehlo_as):
        self._rec('EHLO', ehlo_as)
        if ehlo_as.startswith('refused'):
            reply.code = '550'
            reply.message = '5.7.1 not you'

    def HELO(self, reply, ehlo_as):
        self._rec('HELO', ehlo_as)

    def MAIL(self, reply, address, params):
        self._rec('MAIL', address)

    def RCPT(self, reply, address, params):
        self._rec('RCPT', address)

    def DATA(self, reply):
        self._rec('DATA')

    def HAVE_DATA(self, reply, data, err):
        self._rec('HAVE_DATA', data)

    def NOOP(self, reply):
        self._rec('NOOP')

    def TLSHANDSHAKE(self):
        self._rec('TLSHANDSHAKE')

    def AUTH(self, reply, creds):
        self._rec('AUTH', creds)
        if not self.verdict_ok:
            reply.code = '535'
            reply.message = '5.7.8 rejected by the application'


class Wire(object):
    """Harness-side end of the connection: lock-step reply reading."""

    def __init__(self, sock):
        self.sock = sock
        self.buf = b''

    def read_reply(self, timeout=3.0):
        """-> (code, lines) or None on EOF / timeout."""
        while True:
            replies, rest = sm.parse_replies(self.buf)
            if replies:
                code, lines, end = replies[0]
                self.buf = self.buf[end:]
                return code, lines
            try:
                with gevent.Timeout(timeout):
                    piece = self.sock.recv(4096)
            except gevent.Timeout:
                return None
            except (OSError, gssl.SSLError):
                return None
            if not piece:
                return None
            self.buf += piece

    def send(self, data):
        self.sock.sendall(data)


def start_server(handlers, **kw):
    a, b = gsocket.socketpair()
    server = Server(a, handlers, ('10.0.0.9', 4321), **kw)
    handlers.server = server
    result = {}

    def run():
        try:
            server.handle()
        except ConnectionLost:
            pass
        except Exception as e:
            result['exc'] = e
        finally:
            try:
                server.io.close()
            except Exception:
                pass
    g = gevent.spawn(run)
    return server, b, g, result


# =====================================================================================
# 1. server: bytes pipelined behind STARTTLS
# =====================================================================================

def run_injection(case):
    h = Handlers()
    server, sock, g, result = start_server(h, context=server_ctx(),
                                           auth=([b'PLAIN', b'LOGIN', b'CRAM-MD5'] if case.get('auth') else False))
    w = Wire(sock)
    out = []
    desc = repr(case)
    try:
        if w.read_reply() is None:
            return [('C08:no-banner', desc)], False
        for line in case['prefix']:
            w.send(line.encode() + b'\r\n')
            r = w.read_reply()
            if line == 'AUTH CRAM-MD5' and r is not None and r[0] == '334':
                # a non-plaintext mechanism completed in clear text, before the handshake
                w.send(b64(b'plainuser 0123456789abcdef0123456789abcdef').encode() + b'\r\n')
                r = w.read_reply()
            if r is None or not r[0].startswith('2'):
                return [('C08:harness-prefix-refused', '%s: %r -> %r' % (desc, line, r))], False
        injected = ''.join(l + '\r\n' for l in case['injected']) + case.get('partial', '')
        w.send(b'STARTTLS\r\n' + injected.encode())
        r = w.read_reply()
        if r is None or r[0] != '220':
            return [('C08:starttls-refused', '%s: %r' % (desc, r))], False
        if w.buf:
            out.append(('C08:plaintext-reply-after-220', '%s: the server answered %r in clear text behind its 220' % (desc, w.buf[:60])))
            return out, True
        tls = client_ctx().wrap_socket(sock, server_hostname='peer.example')
        wt = Wire(tls)
        ncb_before = len(h.trace)
        # commands over TLS, in lock step
        expect = []
        data_final = []
        for line in case['tls_commands']:
            wt.send(line.encode() + b'\r\n')
            r = wt.read_reply()
            expect.append((line, r))
            if r is None:
                out.append(('C08:missing-reply-over-tls', '%s: no reply to %r (earlier: %r)' % (desc, line, expect)))
                return out, True
            if line == 'DATA' and r[0] == '354':
                wt.send(b'Subject: x\r\n\r\nbody\r\n.\r\n')
                data_final.append(wt.read_reply())
            if line.startswith('AUTH') and r[0] == '334':
                # the answers to the challenges are sent over TLS only now
                answers = [b64(b'\x00tlsuser\x00tlspass')] if line == 'AUTH PLAIN' else [b64(b'tlsuser'), b64(b'tlspass')]
                for ans in answers:
                    wt.send(ans.encode() + b'\r\n')
                    r = wt.read_reply()
                    if r is None:
                        out.append(('C08:missing-reply-over-tls', '%s: no reply inside the AUTH exchange' % desc))
                        return out, True
                    if r[0] != '334':
                        break
                expect[-1] = (line, r)
        # judge the replies: the session must be in its just-greeted state
        state = {'ehlo': False, 'mail': False, 'rcpt': False, 'authed': False}
        for line, (code, lines) in expect:
            verb = line.split(' ')[0].upper()
            if verb == 'AUTH':
                want = '235' if state['ehlo'] and not state['mail'] and not state['authed'] else '503'
                if code != want:
                    sig = 'C08:state-survived-handshake:authed' if (code == '503' and 'AUTH CRAM-MD5' in case['prefix']) else 'C08:reply-shifted'
                    out.append((sig, '%s: %r over TLS ended with %s %r, expected %s' % (desc, line, code, lines, want)))
                    break
                if want == '235':
                    state['authed'] = True
            elif verb == 'EHLO':
                if code != '250':
                    out.append(('C08:reply-shifted', '%s: EHLO over TLS answered %s %r' % (desc, code, lines[:2])))
                    break
                if any(l.upper().startswith(b'STARTTLS') for l in lines):
                    out.append(('C08:starttls-still-offered', '%s: %r' % (desc, lines)))
                    break
                if lines[0] != b'Hello tls.example':
                    out.append(('C08:reply-shifted', '%s: EHLO over TLS answered %r' % (desc, lines[:2])))
                    break
                state = {'ehlo': True, 'mail': False, 'rcpt': False, 'authed': state['authed']}
            elif verb == 'NOOP':
                if code != '250' or lines != [b'2.0.0 Ok']:
                    out.append(('C08:reply-shifted', '%s: NOOP over TLS answered %s %r' % (desc, code, lines)))
                    break
            elif verb == 'MAIL':
                want = '250' if state['ehlo'] and not state['mail'] else '503'
                if code != want or (want == '250' and b'tlssender' not in lines[0]):
                    out.append(('C08:state-survived-handshake' if code == '250' else 'C08:reply-shifted',
                                '%s: %r over TLS answered %s %r, expected %s' % (desc, line, code, lines, want)))
                    break
                if want == '250':
                    state['mail'] = True
            elif verb == 'RCPT':
                want = '250' if state['mail'] else '503'
                if code != want or (want == '250' and b'tlsrcpt' not in lines[0]):
                    out.append(('C08:state-survived-handshake' if code == '250' else 'C08:reply-shifted',
                                '%s: %r over TLS answered %s %r, expected %s' % (desc, line, code, lines, want)))
                    break
                if want == '250':
                    state['rcpt'] = True
            elif verb == 'DATA':
                want = '354' if state['mail'] and state['rcpt'] else '503'
                if code != want:
                    out.append(('C08:state-survived-handshake' if code == '354' else 'C08:reply-shifted',
                                '%s: DATA over TLS answered %s, expected %s' % (desc, code, want)))
                    break
                if code == '354':
                    r = data_final.pop(0) if data_final else None
                    if r is None or r[0] != '250':
                        out.append(('C08:reply-shifted', '%s: end of data answered %r' % (desc, r)))
                        break
                    state['mail'] = state['rcpt'] = False
        if not out:
            wt.send(b'QUIT\r\n')
            r = wt.read_reply()
            if r is None or r[0] != '221':
                out.append(('C08:reply-shifted', '%s: QUIT answered %r' % (desc, r)))
            else:
                extra = wt.read_reply(timeout=0.3)
                if extra is not None:
                    out.append(('C08:extra-reply-over-tls', '%s: %r' % (desc, extra)))
        # callbacks: nothing injected was interpreted, everything after the handshake is encrypted
        for name, args, enc in h.trace[ncb_before:]:
            if name == 'TLSHANDSHAKE':
                continue
            if name == 'AUTH' and getattr(args[0], 'authcid', None) != 'tlsuser':
                out.append(('C08:injected-command-interpreted', '%s: the application was shown credentials of %r; the client sent '
                            "'tlsuser' over TLS" % (desc, getattr(args[0], 'authcid', None))))
                break
            if any(isinstance(a, str) and 'inj' in a for a in args):
                out.append(('C08:injected-command-interpreted', '%s: callback %s%r' % (desc, name, args)))
                break
            if enc is not True:
                out.append(('C08:callback-not-encrypted-after-handshake', '%s: %s%r' % (desc, name, args)))
                break
        try:
            tls.close()
        except Exception:
            pass
    finally:
        g.join(timeout=2)
        if not g.dead:
            g.kill(block=False)
        try:
            sock.close()
        except Exception:
            pass
    nt = bool(case['injected'] or case.get('partial')) or len(case['prefix']) > 1
    return out, nt


_INJ_LINES = ['EHLO inj.example', 'MAIL FROM:<inj@x.example>', 'RCPT TO:<inj@y.example>', 'NOOP', 'RSET', 'DATA', 'QUIT',
              'AUTH PLAIN aW5qAGluagBpbmo=', 'NOOP inj',
              'AGluanVzZXIAaW5qcGFzcw==', 'aW5qdXNlcg==', '*']      # answers to SASL challenges (PLAIN, LOGIN) and a cancellation
_TLS_CMDS = ['EHLO tls.example', 'NOOP', 'MAIL FROM:<tlssender@x.example>', 'RCPT TO:<tlsrcpt@y.example>', 'DATA']
_TLS_AUTH_CMDS = ['AUTH PLAIN', 'AUTH LOGIN']


@st.composite
def injection_case(draw):
    prefix = ['EHLO plain.example']
    n = draw(st.integers(0, 2))
    if n >= 1:
        prefix.append('MAIL FROM:<plainsender@x.example>')
    if n >= 2:
        prefix.append('RCPT TO:<plainrcpt@y.example>')
    injected = draw(st.lists(st.sampled_from(_INJ_LINES), max_size=3))
    partial = draw(st.sampled_from(['', '', 'NOO', 'MAIL FROM:<inj@', 'E']))
    auth = draw(st.booleans())
    if auth and n == 0 and draw(st.booleans()):
        prefix.append('AUTH CRAM-MD5')
    cmds = draw(st.lists(st.sampled_from(_TLS_CMDS + (_TLS_AUTH_CMDS * 2 if auth else [])), min_size=1, max_size=6))
    if auth and draw(st.booleans()):
        cmds = ['EHLO tls.example', draw(st.sampled_from(_TLS_AUTH_CMDS))] + cmds[:3]
    return {'family': 'injection', 'prefix': prefix, 'injected': injected, 'partial': partial, 'tls_commands': cmds, 'auth': auth}


# =====================================================================================
# 2. client: plaintext replies pipelined behind the server's 220
# =====================================================================================

def run_client_injection(case):
    a, b = gsocket.socketpair()
    client = Client(a, ('peer.example', 25))
    desc = repr(case)
    res = {}

    def peer():
        w = Wire(b)
        w.send(b'220 peer.example ESMTP\r\n')
        # EHLO
        line = b''
        while not line.endswith(b'\r\n'):
            line += b.recv(1)
        w.send(b'250-peer.example\r\n250 STARTTLS\r\n')
        line = b''
        while not line.endswith(b'\r\n'):
            line += b.recv(1)
        injected = ''.join(l + '\r\n' for l in case['injected'])
        w.send(b'220 2.0.0 go ahead\r\n' + injected.encode())
        tls = server_ctx().wrap_socket(b, server_side=True)
        line = b''
        while not line.endswith(b'\r\n'):
            c = tls.recv(1)
            if not c:
                return
            line += c
        res['tls_command'] = line
        tls.sendall(b'250-tls.peer.example real\r\n250 SIZE 4242\r\n')
        res['tls'] = tls
    g = gevent.spawn(peer)
    out = []
    try:
        with gevent.Timeout(5):
            client.get_banner()
            client.ehlo('client.example')
            r = client.starttls(client_ctx())
            if r.code != '220':
                return [('C08:harness-client-starttls', '%s: %r' % (desc, r))], False
            e = client.ehlo('client.example')
        if e.code != '250' or e.message != 'tls.peer.example real' or client.extensions.getparam('SIZE') != '4242' or \
                'AUTH' in client.extensions:
            out.append(('C08:client-took-plaintext-reply', '%s: EHLO after STARTTLS returned %r %r, extensions %r'
                        % (desc, e.code, e.message, sorted(client.extensions.extensions.keys()))))
    except gevent.Timeout:
        out.append(('C08:client-starttls-hangs', desc))
    except Exception as ex:
        out.append(('C08:client-exception:%s' % type(ex).__name__, '%s: %r' % (desc, ex)))
    finally:
        g.join(timeout=1)
        if not g.dead:
            g.kill(block=False)
        for s in (a, b, res.get('tls')):
            try:
                if s is not None:
                    s.close()
            except Exception:
                pass
        try:
            client.io.close()
        except Exception:
            pass
    return out, bool(case['injected'])


@st.composite
def client_case(draw):
    inj = draw(st.lists(st.sampled_from(['250-injected.example', '250 AUTH PLAIN LOGIN', '250 injected.example', '550 5.0.0 injected no',
                                         '250-injected', '250 SIZE 1']), max_size=3))
    # keep the injected block a well-formed reply sequence
    if inj and not any(l[3:4] == ' ' for l in inj[-1:]):
        inj.append('250 AUTH PLAIN')
    return {'family': 'client', 'injected': inj}


# =====================================================================================
# 3. AUTH
# =====================================================================================

def b64(s):
    return base64.b64encode(s).decode('ascii')


def run_auth(case):
    """case: mech, shape, position, tls ('none'|'starttls'|'immediate'), creds (authcid, secret, authzid), verdict_ok"""
    h = Handlers(verdict_ok=case['verdict_ok'])
    tls_mode = case['tls']
    kw = {'auth': [b'PLAIN', b'LOGIN', b'CRAM-MD5']}
    if tls_mode != 'none':
        kw['context'] = server_ctx()
        kw['tls_immediately'] = tls_mode == 'immediate'
    server, sock, g, result = start_server(h, **kw)
    desc = repr(case)
    out = []
    authcid, secret, authzid = case['creds']
    mech, shape, position = case['mech'], case['shape'], case['position']
    try:
        chan = sock
        if tls_mode == 'immediate':
            chan = client_ctx().wrap_socket(sock, server_hostname='peer.example')
        w = Wire(chan)
        if w.read_reply() is None:
            return [('C08:no-banner', desc)], False

        def cmd(line):
            w.send(line + b'\r\n')
            return w.read_reply()

        if position == 'after-refused-ehlo' and tls_mode != 'starttls':
            cmd(b'EHLO refused.example')         # answered 550 by the application: there is still no EHLO identity
        elif position != 'before-ehlo':
            r = cmd(b'EHLO c.example')
            if tls_mode == 'starttls':
                r = cmd(b'STARTTLS')
                if r is None or r[0] != '220':
                    return [('C08:starttls-refused', '%s: %r' % (desc, r))], False
                chan = client_ctx().wrap_socket(sock, server_hostname='peer.example')
                w = Wire(chan)
                r = cmd(b'EHLO refused.example' if position == 'after-refused-ehlo' else b'EHLO c.example')
        if position in ('after-success', 'after-success-reehlo'):
            r = cmd(b'AUTH PLAIN ' + b64(b'\x00first\x00pw').encode())
            if r is None or r[0] not in ('235',):
                # cannot reach the position on this session (e.g. plain text refused without TLS): not judged
                return [], False
            if position == 'after-success-reehlo':
                cmd(b'EHLO again.example')
        if position == 'in-transaction':
            cmd(b'MAIL FROM:<s@x.example>')
        if position in ('after-cancelled-login', 'after-garbled-login'):
            # an earlier exchange in this session was abandoned half way: nothing of it may be left for the next one
            r = cmd(b'AUTH LOGIN')
            if r is None or r[0] != '334':
                return [], False        # LOGIN not on offer here (e.g. refused without TLS): position not reachable
            r = cmd(b64(b'alice').encode())
            if r is None or r[0] != '334':
                return [], False
            r = cmd(b'*' if position == 'after-cancelled-login' else b'!!!')
            if r is None or not r[0].startswith('5'):
                return [('C08:abandoned-auth-not-refused', '%s: %r' % (desc, r))], True
        if position == 'after-refused-mechanism':
            # an AUTH command naming a mechanism that is not on offer, with an initial response, was refused: nothing of it
            # (the response it carried) may be left for the next exchange
            r = cmd(b'AUTH X-OTHER ' + b64(b'\x00mallory\x00planted').encode())
            if r is None or not r[0].startswith('5'):
                return [('C08:unknown-mechanism-not-refused', '%s: %r' % (desc, r))], True
        ncb = len([t for t in h.trace if t[0] == 'AUTH'])
        # the AUTH exchange under test
        enc = lambda s: s.encode('utf-8')
        plain_msg = enc(authzid) + b'\x00' + enc(authcid) + b'\x00' + enc(secret)
        final = None
        if shape == 'noarg':
            final = cmd(b'AUTH')
        elif mech == 'UNKNOWN':
            final = cmd(b'AUTH FOOBAR' + (b' ' + b64(b'x').encode() if shape == 'initial' else b''))
        elif shape == 'badb64':
            final = cmd(b'AUTH ' + mech.encode() + b' !!!not*base64!!!')
        elif shape == 'noisyb64':
            # characters outside the base64 alphabet inside an otherwise complete response: a malformed line, not credentials
            good = b64(plain_msg if mech == 'PLAIN' else enc(authcid))
            noisy = (good[:4] + '!' + good[4:8] + '@' + good[8:]).encode()
            if mech == 'CRAM-MD5':
                r = cmd(b'AUTH CRAM-MD5')
                final = cmd(noisy) if r is not None and r[0] == '334' else r
            else:
                final = cmd(b'AUTH ' + mech.encode() + b' ' + noisy)
                if mech == 'LOGIN' and final is not None and final[0] == '334':
                    final = cmd(b64(enc(secret)).encode())
        elif shape == 'equals':
            final = cmd(b'AUTH ' + mech.encode() + b' =')
        elif shape == 'badutf8':
            bad = b64(b'\x00al\xff\xfeice\x00secret') if mech == 'PLAIN' else b64(b'al\xff\xfeice')
            final = cmd(b'AUTH ' + mech.encode() + b' ' + bad.encode())
            if mech == 'LOGIN' and final is not None and final[0] == '334':
                final = cmd(b64(b'secret').encode())       # the user name is only decoded once the exchange is complete
        elif shape == 'badutf8-challenge':
            r = cmd(b'AUTH ' + mech.encode())
            if r is not None and r[0] == '334':
                bad = b64(b'\x00al\xff\xfeice\x00secret') if mech == 'PLAIN' else b64(b'al\xff\xfeice')
                r = cmd(bad.encode())
                if r is not None and r[0] == '334' and mech == 'LOGIN':
                    r = cmd(b64(b'p\xff').encode())
            final = r
        elif mech == 'PLAIN':
            if shape == 'initial':
                final = cmd(b'AUTH PLAIN ' + b64(plain_msg).encode())
            else:
                r = cmd(b'AUTH PLAIN')
                if r is not None and r[0] == '334':
                    final = cmd(b'*' if shape == 'cancel' else b64(plain_msg).encode())
                else:
                    final = r
        elif mech == 'LOGIN':
            r = cmd(b'AUTH LOGIN' + (b' ' + b64(enc(authcid)).encode() if shape == 'initial' else b''))
            if r is not None and r[0] == '334' and shape != 'initial':
                r = cmd(b'*' if shape == 'cancel' else b64(enc(authcid)).encode())
            if r is not None and r[0] == '334' and shape != 'cancel':
                r = cmd(b64(enc(secret)).encode())
            final = r
        elif mech == 'CRAM-MD5':
            import hmac
            r = cmd(b'AUTH CRAM-MD5')
            if r is not None and r[0] == '334':
                if shape == 'cancel':
                    final = cmd(b'*')
                else:
                    chal = base64.b64decode(r[1][0])
                    digest = hmac.new(enc(secret), chal, 'md5').hexdigest()
                    final = cmd(b64(enc(authcid) + b' ' + digest.encode()).encode())
            else:
                final = r
        auth_cbs = [t for t in h.trace if t[0] == 'AUTH'][ncb:]
        sig_tail = '%s:%s' % (mech, tls_mode if tls_mode == 'none' else 'tls')
        if final is None:
            out.append(('C08:auth-ends-session:%s' % shape, '%s: no reply / connection closed (server error %r)' % (desc, result.get('exc'))))
            return out, True
        code = final[0]
        happy_shape = shape in ('initial', 'challenge') and mech != 'UNKNOWN'
        # 1. position rules
        if position in ('before-ehlo', 'after-refused-ehlo', 'after-success', 'after-success-reehlo', 'in-transaction'):
            if not code.startswith('5') or auth_cbs:
                out.append(('C08:auth-allowed-in-wrong-position:%s' % position, '%s: reply %s callbacks %d' % (desc, code, len(auth_cbs))))
        # 2. plain-text mechanisms need TLS
        elif mech in ('PLAIN', 'LOGIN') and tls_mode == 'none' and shape != 'noarg':
            if not code.startswith('5') or auth_cbs:
                out.append(('C08:plaintext-mechanism-accepted-without-tls:%s' % mech, '%s: reply %s, AUTH callbacks %d'
                            % (desc, code, len(auth_cbs))))
        # 3. malformed / cancelled exchanges: error reply, session goes on
        elif not happy_shape or (mech == 'LOGIN' and shape == 'initial' and False):
            if not code.startswith('5') or auth_cbs:
                out.append(('C08:malformed-auth-accepted:%s' % shape, '%s: reply %s callbacks %d' % (desc, code, len(auth_cbs))))
        else:
            want = '235' if case['verdict_ok'] else '535'
            if code != want or len(auth_cbs) != 1:
                out.append(('C08:auth-result:%s' % sig_tail, '%s: reply %s (expected %s), callbacks %d' % (desc, code, want, len(auth_cbs))))
            else:
                creds = auth_cbs[0][1][0]
                from pysasl.identity import ClearIdentity
                want_zid = (authzid or authcid) if mech == 'PLAIN' else authcid
                ok = creds.authcid == authcid and (creds.authzid or authcid) == want_zid and \
                    bool(creds.verify(ClearIdentity(authcid, secret))) and \
                    not creds.verify(ClearIdentity(authcid, secret + 'x'))
                if not ok:
                    out.append(('C08:credentials-altered:%s' % mech, '%s: application saw authcid=%r authzid=%r'
                                % (desc, creds.authcid, creds.authzid)))
            if server.authed != (code == '235'):
                out.append(('C08:authed-flag', '%s: server.authed=%r after reply %s' % (desc, server.authed, code)))
        # 4. the session survives (unless it was closed with 421/221 deliberately - never expected here)
        if not out:
            r = cmd(b'NOOP')
            if r is None or r[0] != '250':
                out.append(('C08:auth-ends-session:%s' % shape, '%s: NOOP after the AUTH exchange answered %r' % (desc, r)))
        if not out and code == '235' and not server.authed:
            out.append(('C08:authed-flag', desc))
        try:
            w.send(b'QUIT\r\n')
            w.read_reply(timeout=1)
            if chan is not sock:
                chan.close()
        except Exception:
            pass
    except Exception as ex:
        out.append(('C08:harness-exception:%s' % type(ex).__name__, '%s: %r' % (desc, ex)))
    finally:
        g.join(timeout=2)
        if not g.dead:
            g.kill(block=False)
        try:
            sock.close()
        except Exception:
            pass
    nt = not (position == 'normal' and shape in ('initial', 'challenge') and mech != 'UNKNOWN')
    return out, nt


# =====================================================================================
# 4. the edge session: authenticated identity recorded with the message
# =====================================================================================

def run_edge_auth(case):
    from slimta.edge.smtp import SmtpEdge, SmtpValidators
    authcid, secret, authzid = case['creds']
    seen = []

    class V(SmtpValidators):
        def handle_auth(self, reply, creds):
            seen.append((creds.authcid, creds.authzid))
            if not case['verdict_ok']:
                reply.code = '535'
                reply.message = '5.7.8 no'

    queue = sm.CaptureQueue()
    edge = SmtpEdge(None, queue, auth=[b'PLAIN', b'LOGIN'], context=server_ctx(), tls_immediately=True, hostname='edge',
                    validator_class=V)
    a, b = gsocket.socketpair()
    g = gevent.spawn(edge.handle, a, ('10.0.0.9', 4321))
    desc = repr(case)
    out = []
    try:
        chan = client_ctx().wrap_socket(b, server_hostname='peer.example')
        w = Wire(chan)

        def cmd(line):
            w.send(line + b'\r\n')
            return w.read_reply()
        w.read_reply()
        cmd(b'EHLO c.example')
        msg = authzid.encode('utf-8') + b'\x00' + authcid.encode('utf-8') + b'\x00' + secret.encode('utf-8')
        r = cmd(b'AUTH PLAIN ' + base64.b64encode(msg))
        want = '235' if case['verdict_ok'] else '535'
        if r is None or r[0] != want:
            return [('C08:edge-auth-reply', '%s: %r' % (desc, r))], True
        cmd(b'MAIL FROM:<s@x.example>')
        cmd(b'RCPT TO:<r@y.example>')
        r = cmd(b'DATA')
        w.send(b'Subject: t\r\n\r\nbody\r\n.\r\n')
        r = w.read_reply()
        cmd(b'QUIT')
        if r is None or r[0] != '250' or len(queue.envelopes) != 1:
            return [('C08:edge-auth-delivery', '%s: %r' % (desc, r))], True
        client = queue.envelopes[0].client
        if case['verdict_ok']:
            want_auth = (authcid, authzid or authcid)
            if tuple(client.get('auth') or ()) != want_auth or not client.get('protocol', '').endswith('A'):
                out.append(('C08:edge-auth-identity', '%s: envelope.client auth=%r protocol=%r, expected %r'
                            % (desc, client.get('auth'), client.get('protocol'), want_auth)))
        else:
            if client.get('auth') or client.get('protocol', '').endswith('A'):
                out.append(('C08:edge-counts-rejected-auth', '%s: envelope.client auth=%r protocol=%r after 535'
                            % (desc, client.get('auth'), client.get('protocol'))))
        chan.close()
    except Exception as ex:
        out.append(('C08:harness-exception:%s' % type(ex).__name__, '%s: %r' % (desc, ex)))
    finally:
        g.join(timeout=2)
        if not g.dead:
            g.kill(block=False)
        for s_ in (a, b):
            try:
                s_.close()
            except Exception:
                pass
    return out, True


def run_edge_auth_before_tls(case):
    """AUTH completed in clear text (CRAM-MD5), then STARTTLS: the encrypted session starts unauthenticated; the identity recorded
    on the envelope is the one presented over TLS (or none)."""
    from slimta.edge.smtp import SmtpEdge, SmtpValidators
    queue = sm.CaptureQueue()
    edge = SmtpEdge(None, queue, auth=[b'PLAIN', b'LOGIN', b'CRAM-MD5'], context=server_ctx(), hostname='edge', validator_class=SmtpValidators)
    a, b = gsocket.socketpair()
    g = gevent.spawn(edge.handle, a, ('10.0.0.9', 4321))
    desc = repr(case)
    out = []
    try:
        w = Wire(b)

        def cmd(line, w_=None):
            (w_ or w).send(line + b'\r\n')
            return (w_ or w).read_reply()
        w.read_reply()
        cmd(b'EHLO plain.example')
        r = cmd(b'AUTH CRAM-MD5')
        if r is None or r[0] != '334':
            return [('C08:harness-prefix-refused', '%s: %r' % (desc, r))], False
        r = cmd(b64(b'plainuser 0123456789abcdef0123456789abcdef').encode())
        if r is None or r[0] != '235':
            return [('C08:harness-prefix-refused', '%s: %r' % (desc, r))], False
        r = cmd(b'STARTTLS')
        if r is None or r[0] != '220':
            return [('C08:starttls-refused', '%s: %r' % (desc, r))], False
        chan = client_ctx().wrap_socket(b, server_hostname='peer.example')
        wt = Wire(chan)
        cmd(b'EHLO tls.example', wt)
        if case['reauth']:
            r = cmd(b'AUTH PLAIN ' + base64.b64encode(b'\x00tlsuser\x00tlspass'), wt)
            if r is None or r[0] != '235':
                out.append(('C08:state-survived-handshake:authed', '%s: AUTH over TLS answered %r: the clear-text authentication '
                            'still counts after the handshake' % (desc, r)))
                return out, True
        cmd(b'MAIL FROM:<s@x.example>', wt)
        cmd(b'RCPT TO:<r@y.example>', wt)
        cmd(b'DATA', wt)
        wt.send(b'Subject: t\r\n\r\nbody\r\n.\r\n')
        r = wt.read_reply()
        cmd(b'QUIT', wt)
        if r is None or r[0] != '250' or len(queue.envelopes) != 1:
            return [('C08:edge-auth-delivery', '%s: %r' % (desc, r))], True
        client = queue.envelopes[0].client
        want = ('tlsuser', 'tlsuser') if case['reauth'] else None
        got = tuple(client.get('auth')) if client.get('auth') else None
        if got != want or client.get('protocol', '').endswith('A') != bool(want):
            out.append(('C08:state-survived-handshake:edge-identity', '%s: envelope.client auth=%r protocol=%r; over TLS the client '
                        'presented %r' % (desc, client.get('auth'), client.get('protocol'), want)))
        chan.close()
    except Exception as ex:
        out.append(('C08:harness-exception:%s' % type(ex).__name__, '%s: %r' % (desc, ex)))
    finally:
        g.join(timeout=2)
        if not g.dead:
            g.kill(block=False)
        for s_ in (a, b):
            try:
                s_.close()
            except Exception:
                pass
    return out, True


CREDS = [('user', 'pass', ''), ('user', 'pass', 'admin'), ('üser@exämple.com', 'pässwörd€', ''), ('u s e r', 'p q', 'zïd'),
         ('u' * 70, 's' * 70, ''),
         # white space at the edges belongs to the credentials
         # (blanks only: the comparison helper of the SASL library refuses control characters)
         (' dave', 'correct horse ', ' admin'), ('carol ', ' pw ', '')]


def auth_table():
    for tls in ('none', 'starttls', 'immediate'):
        for mech in ('PLAIN', 'LOGIN', 'CRAM-MD5', 'UNKNOWN'):
            for shape in ('initial', 'challenge', 'cancel', 'badb64', 'noisyb64', 'equals', 'noarg', 'badutf8', 'badutf8-challenge'):
                if mech == 'CRAM-MD5' and shape in ('initial',):
                    continue
                if mech == 'UNKNOWN' and shape not in ('initial', 'challenge'):
                    continue
                if mech in ('LOGIN', 'CRAM-MD5') and shape == 'equals':
                    continue
                if mech == 'CRAM-MD5' and shape.startswith('badutf8'):
                    continue
                for position in ('normal', 'before-ehlo', 'after-refused-ehlo', 'after-success', 'after-success-reehlo', 'in-transaction',
                                 'after-cancelled-login', 'after-garbled-login', 'after-refused-mechanism'):
                    if position != 'normal' and shape not in ('initial', 'challenge'):
                        continue
                    for k, creds in enumerate(CREDS if (position == 'normal' and shape in ('initial', 'challenge')) else CREDS[:1]):
                        if mech == 'CRAM-MD5' and (' ' in creds[0] or not creds[0]):
                            continue
                        if mech == 'LOGIN' and shape == 'initial' and not creds[0]:
                            continue
                        for verdict_ok in ((True, False) if k == 0 and position == 'normal' else (True,)):
                            yield {'family': 'auth', 'tls': tls, 'mech': mech, 'shape': shape, 'position': position,
                                   'creds': list(creds), 'verdict_ok': verdict_ok}


def run_shard(ctx):
    index = 0
    for case in auth_table():
        index += 1
        if not ctx.mine(index):
            continue
        f, nt = run_auth(case)
        ctx.record(repr(case), nt, labels=['auth', 'tls=' + case['tls'], 'mech=' + case['mech']], case=case, failures=f)

    for k, creds in enumerate(CREDS):
        for verdict_ok in (True, False):
            index += 1
            if not ctx.mine(index):
                continue
            case = {'family': 'edge-auth', 'creds': list(creds), 'verdict_ok': verdict_ok}
            f, nt = run_edge_auth(case)
            ctx.record(repr(case), nt, labels=['edge-auth'], case=case, failures=f)

    for reauth in (True, False):
        index += 1
        if not ctx.mine(index):
            continue
        case = {'family': 'edge-auth-before-tls', 'reauth': reauth}
        f, nt = run_edge_auth_before_tls(case)
        ctx.record(repr(case), nt, labels=['edge-auth-before-tls'], case=case, failures=f)

    def inj(case):
        f, nt = run_injection(case)
        ctx.record(repr(case), nt, labels=['server-injection'], case=case, failures=f)
    hyp.drive(ctx, injection_case(), inj, ctx.n(2000, 30000))

    def cli(case):
        f, nt = run_client_injection(case)
        ctx.record(repr(case), nt, labels=['client-injection'], case=case, failures=f)
    hyp.drive(ctx, client_case(), cli, ctx.n(400, 6000), salt=1)


def replay(case):
    fam = case.get('family')
    try:
        if fam == 'auth':
            if case['tls'] not in ('none', 'starttls', 'immediate') or case['mech'] not in ('PLAIN', 'LOGIN', 'CRAM-MD5', 'UNKNOWN') \
                    or case['shape'] not in ('initial', 'challenge', 'cancel', 'badb64', 'noisyb64', 'equals', 'noarg', 'badutf8', 'badutf8-challenge') \
                    or case['position'] not in ('normal', 'before-ehlo', 'after-refused-ehlo', 'after-success', 'after-success-reehlo', 'in-transaction',
                                             'after-cancelled-login', 'after-garbled-login', 'after-refused-mechanism'):
                return None            # not a case this check generates: cannot be replayed
            case = dict(case, creds=[str(x) for x in case['creds']][:3])
            if len(case['creds']) != 3:
                return None            # not a case this check generates: cannot be replayed
            return run_auth(case)[0]
        if fam == 'edge-auth':
            creds = [str(x) for x in case['creds']][:3]
            if len(creds) != 3 or not creds[0]:
                return None            # not a case this check generates: cannot be replayed
            return run_edge_auth(dict(case, creds=creds))[0]
        if fam == 'edge-auth-before-tls':
            return run_edge_auth_before_tls({'family': fam, 'reauth': bool(case.get('reauth'))})[0]
        if fam == 'injection':
            if not case.get('prefix') or case['prefix'][0] != 'EHLO plain.example':
                return None            # not a case this check generates: cannot be replayed
            if 'AUTH CRAM-MD5' in case['prefix'] and (not case.get('auth') or len(case['prefix']) != 2):
                return None            # not a case this check generates: cannot be replayed
            case = dict(case, tls_commands=[c for c in case.get('tls_commands', [])
                                            if c in _TLS_CMDS or (case.get('auth') and c in _TLS_AUTH_CMDS)],
                        injected=[c for c in case.get('injected', []) if c in _INJ_LINES])
            if not case['tls_commands']:
                return None            # not a case this check generates: cannot be replayed
            return run_injection(case)[0]
        if fam == 'client':
            inj = [str(x) for x in case.get('injected', [])]
            if inj and inj[-1][3:4] != ' ':
                return None            # not a case this check generates: cannot be replayed
            return run_client_injection(dict(case, injected=inj))[0]
    except KeyError:
        return None            # not a case this check generates: cannot be replayed
    return None            # not a case this check generates: cannot be replayed
