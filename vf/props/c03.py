"""C03 - settled recipients are never attempted again; one attempt in flight per message."""
from vf import qm, qmgen

ID = 'C03'
LEVEL = 'exploration'
RULE = ('queue machine: real Queue + real backend + scripted relay, every storage/relay operation gated, virtual time. '
        '(a) exhaustive enumeration of all per-recipient outcome histories {ok,temp,perm}^outstanding over <=3 rounds under '
        'the serial schedule, 1..3 (quick) / 1..4 (thorough) recipients, mapping and sequence result shapes, 3 backoff tables; '
        '(b) Hypothesis histories of <=41 actions (enqueue, release gate k with outcome, timer tick, clock advance, flush, '
        'announce, clean restart) followed by a fair drain. non-trivial = >=2 attempts of one message with a mixed '
        'per-recipient outcome or retry exhaustion, or an announcement/flush/restart; distinct = distinct (config, actions)')
ASSUMPTIONS = ['an address may be named twice in one message (verdicts are per address)', 'fake redis / object store fidelity (see DESIGN 1.2)',
               'relay outcomes honour the Relay.attempt contract (mapping keys = recipients)',
               'storage operations succeed, except in the storage-fault family where one recording operation (set_recipients_delivered, increment_attempts, set_timestamp) fails once and only the clauses of C03 are judged, within the same process']
EXHAUSTIVE_NOTE = 'per-recipient outcome histories over <=3 rounds, serial schedule (see rule)'

OWN = {'C03'}
WEIGHTS = {'enqueue': 2, 'release': 12, 'tick': 4, 'advance': 1, 'flush': 1, 'announce': 2, 'restart': 1, 'serve': 6, 'storage': 2, 'answer': 4}


def nontrivial(labels, stats, cfg, acts):
    return (qmgen.nontrivial_common(labels, stats) or
            (stats['max_attempts_one_msg'] >= 2 and bool(labels & {'announce', 'flush', 'restart'})))


def backends(ctx):
    return ['dict', 'shelf', 'disk', 'redis', 'cloud', 'cloud-mq']


def qm_has_backends():
    try:
        from vf import backends  # noqa
        return True
    except ImportError:
        return False


def run_shard(ctx):
    bks = backends(ctx)
    qmgen.drive_sequences(ctx, OWN, 4 if ctx.thorough else 3, nontrivial)
    qmgen.drive_schedule_dfs(ctx, OWN, 9 if ctx.thorough else 6, nontrivial)
    qmgen.drive_enumeration(ctx, OWN, bks if ctx.thorough else bks[:2] + bks[2:][:2], 4 if ctx.thorough else 3, 3)
    strat = qmgen.history(qmgen.configs(bks, pools=True, announce=True), WEIGHTS)
    qmgen.drive_histories(ctx, OWN, strat, ctx.n(1500, 25000), nontrivial)
    qmgen.drive_histories(ctx, OWN, qmgen.restart_race_history(), ctx.n(600, 10000), nontrivial, salt=8)
    qmgen.drive_histories(ctx, OWN, qmgen.saturated_pool_history(), ctx.n(600, 10000), nontrivial, salt=9)
    qmgen.drive_histories(ctx, OWN, qmgen.announce_window_history(), ctx.n(800, 12000), nontrivial, salt=11)
    qmgen.drive_histories(ctx, OWN, qmgen.double_report_history(), ctx.n(800, 12000), nontrivial, salt=13)
    qmgen.drive_histories(ctx, OWN, qmgen.enqueue_vs_load_history(), ctx.n(800, 12000), nontrivial, salt=14)
    qmgen.drive_histories(ctx, OWN, qmgen.own_write_announced_history(), ctx.n(600, 10000), nontrivial, salt=16)
    qmgen.drive_histories(ctx, OWN, qmgen.storage_fault_history(), ctx.n(800, 12000), nontrivial, salt=12)
    qmgen.drive_histories(ctx, OWN, qmgen.sched_hold_history(), ctx.n(400, 8000), nontrivial, salt=19)


def replay(case):
    fails, _, _ = qm.run_history(case['cfg'], case.get('actions', []), OWN)
    return fails
