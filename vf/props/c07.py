"""C07 - SMTP server enforces command order and resets transaction state."""
import itertools

from hypothesis import strategies as st

from vf import hyp
from vf import smtpmodel as sm
from vf.smtpmodel import Item, Config, ALPHABET, ALPHA_BY_LABEL

ID = 'C07'
LEVEL = 'exploration'
RULE = ('synchronous Server.handle()/SmtpEdge.handle() sessions on a scripted socket judged in lock step by a reference '
        'automaton. exhaustive part: 12 abstract states (each entered by its canonical prefix) x all sequences of length <=2 '
        '(quick) / <=3 (thorough) over a %d-letter alphabet of command x verdict variants; random part: Hypothesis sessions of '
        'up to 25 commands over the same alphabet plus generated addresses, 1..3 transactions, both handler layers and 4 '
        'configurations. non-trivial = session contains an accepted state-changing command and a rejected, malformed or '
        'out-of-order one; distinct = distinct (config, command sequence)' % len(ALPHABET))
ASSUMPTIONS = ['which 5xx code an illegal command gets is gray', 'state after a rejected DATA command is gray (session cut there)',
               'the AUTH exchange itself (mechanisms, credentials, TLS requirement) is judged by C08; here only its position',
               'STARTTLS uses a stub context whose wrap_socket returns the same socket',
               'replies of one command are flushed before the next command is processed (needed to attribute callbacks)']
EXHAUSTIVE_NOTE = 'all command sequences up to length 2 (quick) / 3 (thorough) from each of 12 abstract states'

L = ALPHA_BY_LABEL
PREFIXES = {
    'fresh': [],
    'greeted-ehlo': ['EHLO'],
    'greeted-helo': ['HELO'],
    'sender': ['EHLO', 'MAIL'],
    'sender-rejected': ['EHLO', 'MAIL/550'],
    'recipient': ['EHLO', 'MAIL', 'RCPT'],
    'recipient-rejected': ['EHLO', 'MAIL', 'RCPT/550'],
    'two-recipients-one-rejected': ['EHLO', 'MAIL', 'RCPT', 'RCPT/450'],
    'after-message': ['EHLO', 'MAIL', 'RCPT', 'DATA'],
    'after-rejected-message': ['EHLO', 'MAIL', 'RCPT', 'DATA-msg/550'],
    'authenticated': ['EHLO', 'AUTH-plain'],
    'after-starttls': ['EHLO', 'STARTTLS'],
    'in-tx-after-rset': ['EHLO', 'MAIL', 'RCPT', 'RSET'],
}

STATE_CHANGING = {'EHLO', 'HELO', 'MAIL', 'RCPT', 'DATA', 'RSET', 'STARTTLS', 'AUTH'}


def run_one(items, cfg, segmentation='line'):
    items, exps, model = sm.predict(items, cfg)
    lines = sm.build_stream(items, exps)
    if segmentation == 'burst':
        # one burst, except that a client never pipelines behind STARTTLS (what it would send there is discarded, see C08)
        segs, cur = [], b''
        for l in lines:
            cur += l
            if l.strip().upper().startswith(b'STARTTLS'):
                segs.append(cur)
                cur = b''
        segs.append(cur)
    elif segmentation == 'bytes':
        data = b''.join(lines)
        segs = [data[i:i + 1] for i in range(len(data))]
    else:
        segs = lines
    res = sm.run_session(segs, cfg)
    fails = sm.judge_session(items, exps, model, res, cfg)
    return items, exps, fails


def is_nontrivial(items, exps):
    accepted = False
    rejected = False
    for it, e in zip(items, exps):
        if e.get('after_end'):
            break
        if e['replies'] and e['replies'][0] == sm.FIVE:
            rejected = True
        elif it.kind in STATE_CHANGING and e['replies'] and e['replies'][-1] in ('250', '354', '220', '235') or \
                (it.kind == 'DATA' and e['replies'][:1] == ['354']):
            accepted = True
        if e['replies'] and isinstance(e['replies'][0], str) and e['replies'][0][:1] in '45' and e['replies'][0] != sm.FIVE:
            rejected = True
    return accepted and rejected


def case_json(items, cfg, seg):
    return {'cfg': cfg.json(), 'items': [i.json() for i in items], 'seg': seg,
            'readable': ' | '.join(i.label for i in items)}


def record(ctx, items, cfg, seg, labels):
    items2, exps, fails = run_one(items, cfg, seg)
    ctx.record((cfg.key(), tuple(i.line for i in items), seg), is_nontrivial(items2, exps), labels=labels,
               case=lambda: case_json(items, cfg, seg), failures=fails)


def exhaustive(ctx, depth):
    cfgs = [Config(auth=True, size=1000, starttls=True, layer='bare'),
            Config(auth=True, size=1000, starttls=True, layer='edge')]
    if ctx.thorough:
        cfgs.append(Config(auth=False, size=None, starttls=False, layer='bare'))
    index = 0
    for cfg in cfgs:
        d = depth if cfg.layer == 'bare' and cfg.auth else min(depth, 2)
        for sname, prefix in sorted(PREFIXES.items()):
            pre = [L[p] for p in prefix]
            for n in range(1, d + 1):
                for seq in itertools.product(ALPHABET, repeat=n):
                    index += 1
                    if not ctx.mine(index):
                        continue
                    record(ctx, pre + list(seq), cfg, 'line' if index % 3 else 'burst',
                           ['exhaustive', 'state=' + sname, 'layer=' + cfg.layer])


TX_LETTERS = ['MAIL', 'RCPT', 'RCPT2', 'RCPT/550', 'DATA', 'DATA-msg/550', 'DATA-msg/450', 'RSET', 'EHLO', 'NOOP', 'MAIL/550']


def exhaustive_transactions(ctx):
    """Edge layer: every transaction-letter sequence of length 3 and 4 after a completed, a rejected and an oversized message
    (what reaches the queue must hold exactly the sender and recipients given since the last reset)."""
    index = 0
    cfg = Config(auth=False, size=60, starttls=False, layer='edge')
    big = Item('DATA', b'DATA', content=b'0123456789abcdef\r\n' * 10, label='DATA-oversized')
    for sname, prefix in (('after-rejected-message', ['EHLO', 'MAIL', 'RCPT', 'DATA-msg/550']),
                          ('after-message', ['EHLO', 'MAIL', 'RCPT', 'DATA']),
                          ('after-oversized-message', ['EHLO', 'MAIL', 'RCPT', big]),
                          ('after-tempfailed-message', ['EHLO', 'MAIL', 'RCPT', 'RCPT2', 'DATA-msg/450'])):
        pre = [L[p] if isinstance(p, str) else p for p in prefix]
        for n in (3, 4) if ctx.thorough else (3,):
            for seq in itertools.product(TX_LETTERS, repeat=n):
                index += 1
                if not ctx.mine(index):
                    continue
                record(ctx, pre + [L[x] for x in seq], cfg, 'line', ['exhaustive-transactions', 'state=' + sname, 'layer=edge'])


_addr_local = st.sampled_from(['s', 'bob', 'v450', 'v550', 'v421', 'r-d550', 'r-d450', '"quoted local"', 'a.b', 'x+tag', 'ü'])
_dom = st.sampled_from(['x.org', 'y.org', 'example.com', 'v550.example'])


@st.composite
def random_item(draw):
    kind = draw(st.sampled_from(['alpha', 'alpha', 'alpha', 'mail', 'rcpt', 'data', 'ehlo']))
    if kind == 'alpha':
        return draw(st.sampled_from(ALPHABET))
    if kind == 'mail':
        addr = '%s@%s' % (draw(_addr_local), draw(_dom))
        return Item('MAIL', ('MAIL FROM:<%s>' % addr).encode('utf-8'), label='MAIL<%s>' % addr)
    if kind == 'rcpt':
        addr = '%s@%s' % (draw(_addr_local), draw(_dom))
        return Item('RCPT', ('RCPT TO:<%s>' % addr).encode('utf-8'), label='RCPT<%s>' % addr)
    if kind == 'ehlo':
        verb = draw(st.sampled_from(['EHLO', 'HELO', 'ehlo', 'Helo']))
        name = draw(st.sampled_from(['c.example', 'v550.example', 'localhost', '[1.2.3.4]']))
        return Item(verb.upper(), ('%s %s' % (verb, name)).encode(), label='%s %s' % (verb, name))
    body = draw(st.sampled_from([b'', b'x\r\n', b'.\r\n', b'..\r\nQUIT\r\n', b'MAIL FROM:<evil@x>\r\n', b'X-Verdict: 550\r\n\r\n',
                                 b'a\r\n.b\r\n\r\n', b'no newline at end']))
    return Item('DATA', b'DATA', content=body, label='DATA[%d]' % len(body))


@st.composite
def random_session(draw):
    cfg = Config(auth=draw(st.booleans()), size=draw(st.sampled_from([None, 1000])), starttls=draw(st.booleans()),
                 banner_verdict=draw(st.sampled_from([None, None, None, None, '550', '421', '450'])),
                 layer=draw(st.sampled_from(['bare', 'edge'])))
    shape = draw(st.sampled_from(['free', 'free', 'transactions']))
    if shape == 'free':
        items = draw(st.lists(random_item(), min_size=1, max_size=25))
    else:
        items = [draw(st.sampled_from([L['EHLO'], L['HELO']]))]
        for _ in range(draw(st.integers(1, 3))):
            items.append(draw(st.sampled_from([L['MAIL'], L['MAIL-null'], L['mail-lower'], L['MAIL/450']])))
            for _ in range(draw(st.integers(0, 3))):
                items.append(draw(st.sampled_from([L['RCPT'], L['RCPT2'], L['RCPT/550'], L['RCPT/450'], L['RCPT-then-DATA/550']])))
            if draw(st.booleans()):
                items.append(draw(random_item()))
            items.append(draw(st.sampled_from([L['DATA'], L['DATA-msg/550'], L['DATA-empty'], L['RSET'], L['EHLO'], L['HELO'], L['NOOP']])))
            if draw(st.booleans()):
                items.append(draw(st.sampled_from([L['RCPT'], L['DATA'], L['MAIL']])))
        items.append(L['QUIT'])
    seg = draw(st.sampled_from(['line', 'line', 'burst', 'bytes']))
    return items, cfg, seg


def run_shard(ctx):
    exhaustive(ctx, 3 if ctx.thorough else 2)
    exhaustive_transactions(ctx)

    def one(v):
        items, cfg, seg = v
        record(ctx, items, cfg, seg, ['random', 'layer=' + cfg.layer, 'seg=' + seg])
    hyp.drive(ctx, random_session(), one, ctx.n(6000, 120000))


def replay(case):
    cfg = Config.from_json(case['cfg'])
    items = [Item.from_json(d) for d in case['items'] if d.get('kind')]
    if not items:
        return []
    _, _, fails = run_one(items, cfg, case.get('seg', 'line'))
    return fails
