"""C19 - relay connection pools stay within bounds and strand no request."""
import re
import time

import gevent
from gevent import socket as gsocket
from gevent.event import AsyncResult
from hypothesis import strategies as st

from vf import hyp
from vf import qm                      # virtual clock
from vf.props import c11
from vf.peers import kill_relay
from vf.props.c08 import client_ctx

import slimta.relay.pool as spool
from slimta.relay.pool import RelayPool, RelayPoolClient
from slimta.relay import TransientRelayError, RelayError
from slimta.relay.smtp.static import StaticSmtpRelay
from slimta.smtp.reply import Reply

ID = 'C19'
REALTIME = True      # runs on the wall clock: an unreproducible failure is re-run before it counts (see runner)
LEVEL = 'exploration'
RULE = ('tier A (deterministic): real RelayPool / RelayPoolClient / BlockingDeque with harness-gated client loops and the idle timeout on a '
        'virtual clock; Hypothesis action lists over {attempt(envelope i), release client gate k with deliver / fail / fail-and-exit / crash, '
        'advance clock}; pool size in {1,2,3,None}, idle timeout in {None, delta}; invariants at every quiescent point and after a fair drain. '
        'tier B (real): StaticSmtpRelay against greenlet peers on socketpairs with generated per-stage delays, connection failures, '
        'server-initiated 421 while idle and mid-transaction 4xx; up to 8 concurrent attempts; HttpRelay against a loopback HTTP peer, including a client that fails inside a request for a reason of its own (EHLO identity callable raising once / identity that cannot be sent). non-trivial = more requests than the pool size '
        'and >=1 client exit while requests are pending (A) / >=2 messages on one connection or a failure (B); distinct = distinct case')
ASSUMPTIONS = ['tier A clients follow the RelayPoolClient contract (poll, then set the result of the request they took)',
               'tier B runs in real time with millisecond delays; only safety invariants and a 10 s watchdog are judged']


# =====================================================================================
# virtual idle timeout
# =====================================================================================

class VTimeout(gevent.Timeout):
    """gevent.Timeout armed by the virtual clock (substituted for slimta.relay.pool.Timeout)."""

    def start(self):
        if self.seconds is None:
            return
        self._vg = gevent.getcurrent()
        self._vt = qm.CLOCK.add_timer(qm.CLOCK.now + self.seconds, self)

    def close(self):
        t = getattr(self, '_vt', None)
        if t is not None:
            qm.CLOCK.cancel(t)
            self._vt = None

    cancel = close

    def _vfire(self):
        self._vt = None
        self._vg.kill(self, block=False)


# =====================================================================================
# tier A
# =====================================================================================

class Crash(Exception):
    pass


class GatedClient(RelayPoolClient):
    def __init__(self, eng, n, queue, idle_timeout):
        super(GatedClient, self).__init__(queue, idle_timeout)
        self.eng = eng
        self.n = n

    def _run(self):
        eng = self.eng
        eng.started.append(self.n)
        while True:
            result, envelope = self.poll()
            if not result:
                eng.log.append(('idle-exit', self.n))
                return
            gate = AsyncResult()
            eng.gates.append((self.n, envelope, result, gate))
            how = gate.get()
            if how == 'deliver':
                result.set(('delivered', envelope['tag'], self.n))
            elif how == 'fail':
                result.set_exception(TransientRelayError('scripted', Reply('450', '4.0.0 ' + envelope['tag'])))
            elif how == 'fail-exit':
                result.set_exception(TransientRelayError('scripted', Reply('451', '4.0.0 ' + envelope['tag'])))
                return
            elif how == 'requeue-exit':
                # what SmtpRelayClient does when the server has timed out the idle connection
                self.queue.appendleft((result, envelope))
                return
            if self.idle_timeout is None:
                return


class GatedPool(RelayPool):
    def __init__(self, eng, pool_size, idle_timeout):
        super(GatedPool, self).__init__(pool_size)
        self.eng = eng
        self.idle_timeout = idle_timeout
        self.nclients = 0

    def add_client(self):
        self.nclients += 1
        return GatedClient(self.eng, self.nclients, self.queue, self.idle_timeout)


class EngineA(object):
    def __init__(self, cfg):
        spool.Timeout = VTimeout
        qm.CLOCK.now = 1000.0
        qm.CLOCK.timers = []
        self.cfg = cfg
        self.gates = []
        self.log = []
        self.started = []
        self.pool = GatedPool(self, cfg['size'], cfg['idle'])
        self.attempts = []          # (tag, greenlet, AsyncResult)
        self.failures = []
        self.labels = set()
        self.max_live = 0

    def settle(self):
        gevent.idle()
        gevent.idle()

    def fail(self, clause, msg):
        self.failures.append(('C19:' + clause, '%r: %s' % (self.cfg, msg)))

    def act(self, a):
        if self.failures:
            return
        kind = a[0]
        if kind == 'attempt' and len(self.attempts) < 8:
            tag = 'e%d' % len(self.attempts)
            env = {'tag': tag}
            out = AsyncResult()

            def go():
                try:
                    out.set(('ok', self.pool.attempt(env, 0)))
                except BaseException as e:
                    out.set(('exc', e))
            self.attempts.append((tag, gevent.spawn(go), out))
        elif kind == 'release' and self.gates:
            n, env, result, gate = self.gates.pop(a[1] % len(self.gates))
            how = a[2]
            if how in ('fail-exit', 'requeue-exit') and len(self.pool.queue) > 0:
                self.labels.add('exit-while-pending')
            gate.set(how)
        elif kind == 'tick':
            due = qm.CLOCK.next_due()
            if due is not None:
                qm.CLOCK.advance_to(due)
                self.labels.add('idle-expiry')
        self.settle()
        self.check()

    def live_clients(self):
        return [c for c in self.pool.pool if not c.dead]

    def check(self):
        if self.failures:
            return
        size = self.cfg['size']
        live = self.live_clients()
        self.max_live = max(self.max_live, len(live))
        if size and len(live) > size:
            self.fail('pool-bound-exceeded', '%d live clients with pool_size %d' % (len(live), size))
            return
        if len(self.attempts) > (size or 99):
            self.labels.add('more-requests-than-size')
        q = self.pool.queue
        if len(q) != q.sema.counter:
            self.fail('deque-counter', 'len(queue)=%d but semaphore counter=%d' % (len(q), q.sema.counter))
            return
        for tag, g, out in self.attempts:
            if out.ready():
                kind, res = out.get()
                if kind == 'ok':
                    if not (isinstance(res, tuple) and res[1] == tag):
                        self.fail('result-of-another-envelope', 'attempt %s received %r' % (tag, res))
                        return
                elif isinstance(res, RelayError):
                    if tag not in res.reply.message:
                        self.fail('result-of-another-envelope', 'attempt %s received error %r' % (tag, res.reply))
                        return
                else:
                    self.fail('attempt-raised:%s' % type(res).__name__, 'attempt %s: %r' % (tag, res))
                    return
        pending = len(q)
        if pending > 0 and not live:
            self.fail('request-stranded', '%d request(s) waiting in the pool queue while no client exists' % pending)

    def drain(self):
        for _ in range(100):
            if self.failures:
                return
            if self.gates:
                n, env, result, gate = self.gates.pop(0)
                gate.set('deliver')
                self.settle()
                self.check()
                continue
            unfinished = [t for t, g, o in self.attempts if not o.ready()]
            if not unfinished:
                break
            due = qm.CLOCK.next_due()
            if due is not None and not len(self.pool.queue):
                qm.CLOCK.advance_to(due)
                self.settle()
                self.check()
                continue
            break
        unfinished = [t for t, g, o in self.attempts if not o.ready()]
        if unfinished and not self.failures:
            self.fail('request-stranded', 'after the drain attempts %r never received a result (queue %d, live clients %d, gates %d)'
                      % (unfinished, len(self.pool.queue), len(self.live_clients()), len(self.gates)))

    def close(self):
        for n, env, result, gate in self.gates:
            gate.set('crash')
        for c in list(self.pool.pool):
            if not c.dead:
                c.kill(block=False)
        for tag, g, out in self.attempts:
            if not g.dead:
                g.kill(block=False)
        gevent.idle()
        qm.CLOCK.timers = []


def run_a(cfg, actions):
    eng = EngineA(cfg)
    try:
        for a in actions:
            if isinstance(a, list) and a:
                eng.act(a)
        eng.drain()
        nt = 'more-requests-than-size' in eng.labels and 'exit-while-pending' in eng.labels
        return eng.failures, nt, eng.labels
    finally:
        eng.close()


_act = st.one_of(
    st.just(['attempt']), st.just(['attempt']),
    st.tuples(st.just('release'), st.integers(0, 3), st.sampled_from(['deliver', 'deliver', 'fail', 'fail-exit', 'requeue-exit'])).map(list),
    st.tuples(st.just('release'), st.integers(0, 3), st.sampled_from(['deliver', 'fail-exit', 'requeue-exit'])).map(list),
    st.just(['tick']))
_case_a = st.tuples(st.fixed_dictionaries({'size': st.sampled_from([1, 1, 2, 3, None]), 'idle': st.sampled_from([None, 5.0, 5.0])}),
                    st.lists(_act, min_size=2, max_size=30))


# =====================================================================================
# tier B
# =====================================================================================

class DelayPeer(object):
    """SMTP peer on a real socket with scripted per-message behaviour and small delays."""
    nopen = 0
    max_open = 0

    def __init__(self, sock, case, log):
        self.sock = sock
        self.case = case
        self.log = log
        DelayPeer.nopen += 1
        DelayPeer.max_open = max(DelayPeer.max_open, DelayPeer.nopen)
        self.g = gevent.spawn(self.run)

    def run(self):
        case = self.case
        d = case['delay']
        conn = id(self)
        try:
            f = self.sock.makefile('rb')
            self.sock.sendall(b'220 peer\r\n')
            in_tx = False
            tag = None
            nmsg = 0
            naccepted = 0
            while True:
                line = f.readline()
                if not line:
                    return
                gevent.sleep(d)
                verb = line.split(b' ')[0].strip().upper()
                if verb == b'EHLO':
                    self.sock.sendall(b'250-peer\r\n250 PIPELINING\r\n' if case['pipelining'] else b'250 peer\r\n')
                    if case.get('after_ehlo'):
                        # something unsolicited right behind the greeting, on every connection: "421 too busy" and close, or a stray line
                        gevent.sleep(0.003)
                        if case['after_ehlo'] == '421':
                            self.sock.sendall(b'421 4.3.2 too busy, closing\r\n')
                            return
                        self.sock.sendall(b'250 2.0.0 stray line\r\n')
                elif verb == b'MAIL':
                    if in_tx:
                        # like a real server: nested MAIL is a protocol error (the previous transaction was never reset)
                        self.log.append((conn, 'MAIL-WHILE-OPEN', line.strip()))
                        self.sock.sendall(b'503 5.5.1 nested MAIL\r\n')
                        continue
                    self.log.append((conn, 'MAIL', line.strip()))
                    in_tx = True
                    naccepted = 0
                    self.sock.sendall(b'250 2.1.0 ok\r\n')
                elif verb == b'RCPT':
                    fault = case['faults'].get(line.strip().split(b'<')[1].split(b'@')[0].decode(), None)
                    if fault == 'rcpt4xx':
                        self.sock.sendall(b'451 4.5.0 rcpt later\r\n')
                    elif fault == 'rcpt5xx':
                        self.sock.sendall(b'550 5.1.1 rcpt unknown\r\n')
                    else:
                        naccepted += 1
                        self.sock.sendall(b'250 2.1.5 ok\r\n')
                elif verb == b'DATA':
                    if not naccepted:
                        self.sock.sendall(b'503 5.5.1 no valid recipients\r\n')
                        continue
                    self.sock.sendall(b'354 go\r\n')
                    data = b''
                    while True:
                        l = f.readline()
                        if not l or l == b'.\r\n':
                            break
                        data += l
                    m = re.search(br'X-Tag: (\S+)', data)
                    tag = m.group(1).decode() if m else '?'
                    gevent.sleep(d)
                    self.log.append((conn, 'EOD', tag))
                    in_tx = False
                    nmsg += 1
                    if case['faults'].get(tag) == 'eod4xx':
                        self.sock.sendall(('451 4.3.0 failed %s\r\n' % tag).encode())
                    else:
                        self.sock.sendall(('250 2.0.0 queued %s\r\n' % tag).encode())
                    if case['faults'].get(tag) == 'then421':
                        gevent.sleep(d)
                        self.sock.sendall(b'421 4.4.2 idle too long\r\n')
                        return
                    if case['faults'].get(tag) == 'thenclose':
                        return
                elif verb == b'RSET':
                    self.log.append((conn, 'RSET', None))
                    in_tx = False
                    if case.get('rset_delay'):
                        gevent.sleep(case['rset_delay'])      # answers later than the client's command timeout
                    self.sock.sendall(b'250 ok\r\n')
                elif verb == b'QUIT':
                    self.sock.sendall(b'221 bye\r\n')
                    return
                else:
                    self.sock.sendall(b'500 what\r\n')
        except Exception:
            pass
        finally:
            DelayPeer.nopen -= 1
            try:
                self.sock.close()
            except Exception:
                pass


def run_b(case):
    DelayPeer.nopen = 0
    DelayPeer.max_open = 0
    spool.Timeout = gevent.Timeout
    log = []
    peers = []
    nconn = [0]

    def creator(address):
        nconn[0] += 1
        if nconn[0] in case.get('refuse', []):
            raise gsocket.error(111, 'Connection refused')
        a, b = gsocket.socketpair()
        peers.append(DelayPeer(b, case, log))
        return a
    relay = StaticSmtpRelay('peer.example', 25, pool_size=case['size'], socket_creator=creator, context=client_ctx(),
                            ehlo_as='relay.example', idle_timeout=case['idle'], command_timeout=case.get('cmd_t') or 5, data_timeout=5,
                            connect_timeout=5)
    n = case['n']
    outs = []
    desc = repr(case)
    for i in range(n):
        env = c11.make_env(1, 'm%d' % i)
        env.recipients = ['m%d@y.example' % i]
        if 'm%db' % i in case['faults'] or case.get('two_rcpts'):
            env.recipients.append('m%db@y.example' % i)
        o = AsyncResult()

        def go(env=env, o=o):
            try:
                o.set(('ok', relay.attempt(env, 0)))
            except BaseException as e:
                o.set(('exc', e))
        outs.append(('m%d' % i, gevent.spawn(go), o))
        gevent.sleep(case['stagger'])
    out = []
    try:
        gevent.joinall([g for _, g, _ in outs], timeout=10)
        for tag, g, o in outs:
            if not o.ready():
                out.append(('C19:attempt-never-returns', '%s: attempt %s still blocked after 10 s' % (desc, tag)))
                return out, True
            kind, res = o.get()
            if kind == 'ok':
                rep = list(res.values())[0] if isinstance(res, dict) else res
                text = getattr(rep, 'message', None) or getattr(getattr(rep, 'reply', None), 'message', '')
                if isinstance(rep, RelayError):
                    if case['faults'].get(tag) not in ('rcpt4xx', 'rcpt5xx', 'eod4xx'):
                        # a transient error without a scripted fault: only connection-level events may explain it
                        # (with a short command timeout also a slow exchange)
                        # (in the late-RSET family the only slow exchange is the RSET, after which the connection is dropped: later
                        #  messages go over a fresh connection and have nothing to explain a failure)
                        if not (case.get('refuse') or (case.get('cmd_t') and not case.get('rset_delay')) or case.get('after_ehlo') or
                                any(v in ('then421', 'thenclose') for v in case['faults'].values())):
                            out.append(('C19:unexplained-failure', '%s: %s -> %r' % (desc, tag, rep.reply)))
                elif tag not in (text or ''):
                    out.append(('C19:result-of-another-envelope', '%s: attempt %s received %r' % (desc, tag, text)))
            else:
                if not isinstance(res, RelayError):
                    out.append(('C19:attempt-raised:%s' % type(res).__name__, '%s: %s: %r' % (desc, tag, res)))
                elif [t for t in re.findall(r'\bm\d+\b', res.reply.message or '') if t != tag]:
                    out.append(('C19:result-of-another-envelope', '%s: attempt %s received %r' % (desc, tag, res.reply)))
                elif case.get('rset_delay') and not case['faults'].get(tag) and not case['faults'].get(tag + 'b'):
                    # late-RSET family: nothing is scripted to go wrong for this message, and it travels on a fresh connection
                    out.append(('C19:unexplained-failure', '%s: %s -> %r' % (desc, tag, res.reply)))
        # every attempt receives the result of its *own* envelope: a message the peer took (250 after end-of-data) cannot
        # come back as failed (all replies are sent well within the timeouts)
        taken = set(arg for conn, ev, arg in log if ev == 'EOD' and case['faults'].get(arg) != 'eod4xx')
        for tag, g, o in outs:
            kind, res = o.get()
            rep = (list(res.values())[0] if isinstance(res, dict) else res) if kind == 'ok' else res
            if isinstance(rep, RelayError) and tag in taken and not out:
                out.append(('C19:failure-reported-for-accepted-message', '%s: the peer accepted %s with 250, its attempt got %r'
                            % (desc, tag, rep.reply)))
        if case.get('after_ehlo') and nconn[0] > 4 * n + 4:
            out.append(('C19:reconnect-storm', '%s: %d connections were made for %d attempts' % (desc, nconn[0], n)))
        if case['size'] and DelayPeer.max_open > case['size']:
            out.append(('C19:pool-bound-exceeded', '%s: %d connections open at once with pool_size %d'
                        % (desc, DelayPeer.max_open, case['size'])))
        # one message at a time per connection; RSET after a failed transaction
        by_conn = {}
        for conn, ev, arg in log:
            by_conn.setdefault(conn, []).append((ev, arg))
        for conn, evs in by_conn.items():
            open_tx = False
            failed = False
            for ev, arg in evs:
                if ev == 'MAIL-WHILE-OPEN':
                    out.append(('C19:no-reset-after-failed-transaction', '%s: MAIL arrived while the previous transaction was '
                                'still open on that connection: %r' % (desc, evs)))
                    break
                if ev == 'MAIL':
                    if open_tx:
                        out.append(('C19:two-messages-interleaved-on-one-connection', '%s: %r' % (desc, evs)))
                        break
                    if failed:
                        out.append(('C19:no-reset-after-failed-transaction', '%s: %r' % (desc, evs)))
                        break
                    open_tx = True
                elif ev == 'EOD':
                    open_tx = False
                    failed = case['faults'].get(arg) == 'eod4xx'
                elif ev == 'RSET':
                    open_tx = False
                    failed = False
    finally:
        kill_relay(relay)
        for _, g, _ in outs:
            if not g.dead:
                g.kill(block=False)
        for p in peers:
            if not p.g.dead:
                p.g.kill(block=False)
    reused = any(len([e for e in evs if e[0] == 'MAIL']) >= 2 for evs in by_conn.values()) if 'by_conn' in dir() else False
    return out, bool(case['faults'] or case.get('refuse') or reused)


def run_http(case):
    """Tier B for HttpRelay: concurrent attempts against a delaying HTTP peer on loopback."""
    from gevent.server import StreamServer
    from slimta.relay.http import HttpRelay
    spool.Timeout = gevent.Timeout
    state = {'open': 0, 'max': 0, 'reqs': 0}

    def handle(sock, addr):
        state['open'] += 1
        state['max'] = max(state['max'], state['open'])
        try:
            f = sock.makefile('rb')
            while True:
                line = f.readline()
                if not line:
                    return
                hdrs = {}
                while True:
                    h = f.readline()
                    if h in (b'\r\n', b''):
                        break
                    k, _, v = h.partition(b':')
                    hdrs[k.strip().lower()] = v.strip()
                body = f.read(int(hdrs.get(b'content-length', b'0')))
                state['reqs'] += 1
                m = re.search(br'X-Tag: (\S+)', body)
                tag = m.group(1).decode() if m else '?'
                gevent.sleep(case['delay'])
                fault = case['faults'].get(tag)
                if fault == 'thenclose':
                    return
                if fault == 'eod4xx':
                    out = 'HTTP/1.1 503 Busy\r\nX-Smtp-Reply: 451; message="4.3.0 failed %s"\r\nContent-Length: 0\r\n\r\n' % tag
                else:
                    out = 'HTTP/1.1 200 OK\r\nX-Smtp-Reply: 250; message="2.0.0 queued %s"\r\nContent-Length: 2\r\n\r\nok' % tag
                if case.get('bodysplit') and fault != 'eod4xx':
                    sock.sendall(out[:-2].encode())          # the body arrives in a later segment than the headers
                    # (a client that does not keep the connection may close it once it has the headers; this side only
                    #  notices after the pause, so the connection is not counted as open meanwhile)
                    state['open'] -= 1
                    gevent.sleep(case['bodysplit'])
                    state['open'] += 1
                    sock.sendall(out[-2:].encode())
                else:
                    sock.sendall(out.encode())
                if not case['keepalive']:
                    return
        except Exception:
            pass
        finally:
            state['open'] -= 1
            try:
                sock.close()
            except Exception:
                pass
    server = StreamServer(('127.0.0.1', 0), handle)
    server.start()
    # the client's own failure inside a request (its EHLO identity cannot be computed / cannot be sent) must not leave the
    # attempt waiting: `ehlo` in {None, 'raise-once' (the callable fails on its first call), 'nonlatin' (never sendable)}
    ehlo_mode = case.get('ehlo')
    ehlo_calls = []

    def ehlo_as():
        ehlo_calls.append(1)
        if ehlo_mode == 'raise-once' and len(ehlo_calls) == 1:
            raise RuntimeError('cannot determine the host name')
        return 'h\u00f4te\u20ac.example' if ehlo_mode == 'nonlatin' else 'relay.example'
    own_failures = 0
    relay = HttpRelay('http://127.0.0.1:%d/' % server.server_port, pool_size=case['size'],
                      ehlo_as=(ehlo_as if ehlo_mode else 'relay.example'), timeout=5, idle_timeout=case['idle'])
    outs = []
    desc = repr(case)
    for i in range(case['n']):
        env = c11.make_env(1, 'm%d' % i)
        o = AsyncResult()

        def go(env=env, o=o):
            try:
                o.set(('ok', relay.attempt(env, 0)))
            except BaseException as e:
                o.set(('exc', e))
        outs.append(('m%d' % i, gevent.spawn(go), o))
        gevent.sleep(case['stagger'])
    out = []
    try:
        gevent.joinall([g for _, g, _ in outs], timeout=12)
        for tag, g, o in outs:
            if not o.ready():
                out.append(('C19:attempt-never-returns:http', '%s: attempt %s still blocked after 12 s' % (desc, tag)))
                break
            kind, res = o.get()
            text = getattr(res, 'message', None) if kind == 'ok' else getattr(getattr(res, 'reply', None), 'message', None)
            if kind == 'exc' and ehlo_mode and isinstance(res, (RuntimeError, UnicodeError)) and not isinstance(res, RelayError):
                own_failures += 1        # the failure of the client itself is handed to the caller of this attempt: fine
            elif kind == 'exc' and not isinstance(res, RelayError):
                out.append(('C19:attempt-raised:%s' % type(res).__name__, '%s: %s: %r' % (desc, tag, res)))
            elif [t for t in re.findall(r'\bm\d+\b', text or '') if t != tag]:
                out.append(('C19:result-of-another-envelope:http', '%s: attempt %s received %r' % (desc, tag, text)))
            elif kind == 'ok' and case['faults'].get(tag):
                out.append(('C19:failed-request-reported-delivered:http', '%s: %s' % (desc, tag)))
            elif kind == 'exc' and not case['faults'].get(tag) and \
                    (case['idle'] is None or (case['keepalive'] and 'thenclose' not in case['faults'].values())):
                # (when the peer closes connections the relay keeps for re-use, a transient failure of the next request is legitimate)
                out.append(('C19:unexplained-failure:http', '%s: attempt %s failed with %r although the peer answered it 200'
                            % (desc, tag, getattr(res, 'reply', res))))
        if not out and ehlo_mode == 'raise-once' and own_failures > 1:
            out.append(('C19:one-client-failure-hit-several-attempts:http', '%s: %d attempts failed' % (desc, own_failures)))
        if case['size'] and state['max'] > case['size']:
            out.append(('C19:pool-bound-exceeded:http', '%s: %d connections open at once with pool_size %d' % (desc, state['max'], case['size'])))
    finally:
        kill_relay(relay)
        for _, g, _ in outs:
            if not g.dead:
                g.kill(block=False)
        server.stop()
    return out, bool(case['faults']) or case['n'] > (case['size'] or 99) or bool(ehlo_mode)


@st.composite
def case_http(draw):
    n = draw(st.integers(1, 8))
    faults = {}
    for i in range(n):
        f = draw(st.sampled_from([None, None, None, 'eod4xx', 'thenclose']))
        if f:
            faults['m%d' % i] = f
    return {'family': 'H', 'n': n, 'size': draw(st.sampled_from([1, 2, 3, None])), 'idle': draw(st.sampled_from([None, 0.05, 1.0])),
            'keepalive': draw(st.booleans()), 'delay': draw(st.sampled_from([0.0, 0.001, 0.005])),
            'stagger': draw(st.sampled_from([0.0, 0.002, 0.02])), 'faults': faults, 'bodysplit': draw(st.sampled_from([0, 0, 0.01, 0.03]))}


@st.composite
def case_b(draw):
    n = draw(st.integers(1, 8))
    faults = {}
    for i in range(n):
        f = draw(st.sampled_from([None, None, None, 'eod4xx', 'rcpt4xx', 'rcpt5xx', 'then421', 'thenclose', 'mixed']))
        if f == 'mixed':
            # two recipients, both refused, with different classes
            faults['m%d' % i] = draw(st.sampled_from(['rcpt4xx', 'rcpt5xx']))
            faults['m%db' % i] = 'rcpt5xx' if faults['m%d' % i] == 'rcpt4xx' else 'rcpt4xx'
        elif f:
            faults['m%d' % i] = f
    return {'family': 'B', 'n': n, 'size': draw(st.sampled_from([1, 2, 3, None])), 'idle': draw(st.sampled_from([None, 0.05, 1.0])),
            'pipelining': draw(st.booleans()), 'delay': draw(st.sampled_from([0.0, 0.001, 0.005])),
            'stagger': draw(st.sampled_from([0.0, 0.0, 0.002, 0.02])), 'faults': faults,
            'refuse': draw(st.lists(st.integers(1, 4), max_size=2, unique=True))}


@st.composite
def case_b_late_rset(draw):
    """A transaction fails, and the peer answers the RSET that follows later than the command timeout while the next message waits."""
    n = draw(st.integers(2, 5))
    faults = {'m0': draw(st.sampled_from(['rcpt5xx', 'rcpt4xx', 'eod4xx']))}
    for i in range(1, n):
        f = draw(st.sampled_from([None, None, None, 'eod4xx', 'rcpt5xx']))
        if f:
            faults['m%d' % i] = f
    return {'family': 'B', 'n': n, 'size': draw(st.sampled_from([1, 1, 2])), 'idle': 1.0, 'pipelining': draw(st.booleans()), 'delay': 0.0,
            'stagger': draw(st.sampled_from([0.0, 0.002])), 'faults': faults, 'refuse': [], 'cmd_t': 0.2,
            'rset_delay': draw(st.sampled_from([0.3, 0.25, 0.35]))}


def run_shard(ctx):
    def one_a(v):
        cfg, actions = v
        f, nt, labels = run_a(cfg, actions)
        ctx.record(repr(v), nt, labels=['tier=A', 'size=%s' % cfg['size'], 'idle=%s' % cfg['idle']] + sorted(labels),
                   case=lambda: {'family': 'A', 'cfg': cfg, 'actions': actions}, failures=f)
    hyp.drive(ctx, _case_a, one_a, ctx.n(4000, 80000))

    def one_b(case):
        f, nt = run_b(case)
        ctx.record(repr(case), nt, labels=['tier=B', 'size=%s' % case['size']], case=case, failures=f)
    hyp.drive(ctx, case_b(), one_b, ctx.n(240, 4000), salt=1)
    hyp.drive(ctx, case_b_late_rset(), one_b, ctx.n(64, 800), salt=3)
    k = 0
    for after in ('421', 'stray'):
        for size in (1, 2, None):
            for n in (1, 3):
                for pipelining in (True, False):
                    k += 1
                    if ctx.mine(k):
                        one_b({'family': 'B', 'n': n, 'size': size, 'idle': 1.0, 'pipelining': pipelining, 'delay': 0.0, 'stagger': 0.0,
                               'faults': {}, 'refuse': [], 'after_ehlo': after})

    # the peer drops the connection (421 / plain close) while it is idle between two messages
    for fault in ('then421', 'thenclose'):
        for size in (1, None):
            for pipelining in (True, False):
                k += 1
                if ctx.mine(k):
                    one_b({'family': 'B', 'n': 3, 'size': size, 'idle': 1.0, 'pipelining': pipelining, 'delay': 0.0, 'stagger': 0.03,
                           'faults': {'m0': fault}, 'refuse': []})

    def one_h(case):
        f, nt = run_http(case)
        ctx.record(repr(case), nt, labels=['tier=B-http', 'size=%s' % case['size']], case=case, failures=f)
    hyp.drive(ctx, case_http(), one_h, ctx.n(160, 3000), salt=2)
    # one kept connection carries a refused message and then the next ones (pool of one: no timing involved)
    for which in ('m0', 'm1'):
        for stagger in (0.0, 0.02):
            for bodysplit in (0, 0.01):
                k += 1
                if ctx.mine(k):
                    one_h({'family': 'H', 'n': 3, 'size': 1, 'idle': 1.0, 'keepalive': True, 'delay': 0.0, 'stagger': stagger,
                           'faults': {which: 'eod4xx'}, 'bodysplit': bodysplit})
    # the client fails inside a request for a reason of its own: the attempt it was serving ends, the others are served
    for ehlo in ('raise-once', 'nonlatin'):
        for size in (1, 2, None):
            for n in (1, 3):
                for idle in (None, 1.0):
                    k += 1
                    if ctx.mine(k):
                        one_h({'family': 'H', 'n': n, 'size': size, 'idle': idle, 'keepalive': True, 'delay': 0.0, 'stagger': 0.0,
                               'faults': {}, 'bodysplit': 0, 'ehlo': ehlo})


def replay(case):
    if case.get('ehlo') not in (None, 'raise-once', 'nonlatin'):
        return None            # not a case this check generates: cannot be replayed
    try:
        if case.get('family') == 'A':
            cfg = case['cfg']
            if cfg.get('size') not in (1, 2, 3, None):
                return None            # not a case this check generates: cannot be replayed
            cfg = {'size': cfg.get('size'), 'idle': (None if cfg.get('idle') is None else float(cfg['idle']))}
            acts = []
            for a in case.get('actions', []):
                if a and a[0] == 'attempt':
                    acts.append(['attempt'])
                elif a and a[0] == 'tick':
                    acts.append(['tick'])
                elif a and a[0] == 'release' and len(a) == 3 and a[2] in ('deliver', 'fail', 'fail-exit', 'requeue-exit'):
                    acts.append(['release', int(a[1]), a[2]])
            return run_a(cfg, acts)[0]
        if case.get('family') == 'H':
            case = dict(case, n=max(1, min(8, int(case['n']))))
            case['faults'] = dict((k, v) for k, v in case.get('faults', {}).items() if v in ('eod4xx', 'thenclose'))
            if case.get('size') not in (1, 2, 3, None):
                return None            # not a case this check generates: cannot be replayed
            return run_http(case)[0]
        if case.get('family') == 'B':
            case = dict(case, n=max(1, min(8, int(case['n']))))
            case['faults'] = dict((k, v) for k, v in case.get('faults', {}).items()
                                  if v in ('eod4xx', 'rcpt4xx', 'rcpt5xx', 'then421', 'thenclose'))
            if case.get('size') not in (1, 2, 3, None):
                return None            # not a case this check generates: cannot be replayed
            if case.get('after_ehlo') not in (None, '421', 'stray'):
                return None            # not a case this check generates: cannot be replayed
            if case.get('cmd_t') is not None:
                case['cmd_t'] = max(0.05, float(case['cmd_t']))
            if case.get('rset_delay') is not None:
                case['rset_delay'] = max(0.0, min(1.0, float(case['rset_delay'])))
            return run_b(case)[0]
    except (KeyError, ValueError, TypeError):
        return None            # not a case this check generates: cannot be replayed
    return None            # not a case this check generates: cannot be replayed
