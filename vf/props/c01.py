"""C01 - accepted mail is never lost: every recipient reaches a final disposition."""
from vf import qm, qmgen
from vf.props import c03

ID = 'C01'
LEVEL = 'exploration'
RULE = c03.RULE.replace('non-trivial = >=2 attempts of one message with a mixed per-recipient outcome or retry exhaustion, '
                        'or an announcement/flush/restart',
                        'non-trivial = >=2 attempts of one message and a mixed per-recipient outcome, or retry exhaustion')
ASSUMPTIONS = c03.ASSUMPTIONS + ['"eventually" is judged after a fair drain: every gate released with success, clock advanced to '
                                 'each next timer, at most 400 rounds']
EXHAUSTIVE_NOTE = c03.EXHAUSTIVE_NOTE

OWN = {'C01'}
WEIGHTS = {'enqueue': 3, 'release': 14, 'tick': 4, 'advance': 1, 'flush': 1, 'announce': 1, 'restart': 1, 'serve': 6, 'storage': 2, 'answer': 4}


def nontrivial(labels, stats, cfg, acts):
    return qmgen.nontrivial_common(labels, stats)


def run_shard(ctx):
    bks = c03.backends(ctx)
    qmgen.drive_sequences(ctx, OWN, 4 if ctx.thorough else 3, nontrivial)
    qmgen.drive_enumeration(ctx, OWN, bks, 4 if ctx.thorough else 3, 3)
    strat = qmgen.history(qmgen.configs(bks, pools=True, announce=True, bounce=True), WEIGHTS)
    qmgen.drive_histories(ctx, OWN, strat, ctx.n(1500, 25000), nontrivial)
    qmgen.drive_histories(ctx, OWN, qmgen.burst_history(), ctx.n(1500, 25000), nontrivial, salt=7)


def replay(case):
    fails, _, _ = qm.run_history(case['cfg'], case.get('actions', []), OWN)
    return fails
