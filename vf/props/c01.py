"""C01 - accepted mail is never lost: every recipient reaches a final disposition."""
from vf import qm, qmgen, hyp
from vf.props import c03

ID = 'C01'
LEVEL = 'exploration'
RULE = c03.RULE.replace('non-trivial = >=2 attempts of one message with a mixed per-recipient outcome or retry exhaustion, '
                        'or an announcement/flush/restart',
                        'non-trivial = >=2 attempts of one message and a mixed per-recipient outcome, or retry exhaustion')
ASSUMPTIONS = c03.ASSUMPTIONS + ['"eventually" is judged after a fair drain: every gate released with success, clock advanced to '
                                 'each next timer, at most 400 rounds']
EXHAUSTIVE_NOTE = c03.EXHAUSTIVE_NOTE

OWN = {'C01'}
WEIGHTS = {'enqueue': 3, 'release': 14, 'tick': 4, 'advance': 1, 'flush': 1, 'announce': 1, 'restart': 1, 'serve': 6, 'storage': 2, 'answer': 4}


def nontrivial(labels, stats, cfg, acts):
    return qmgen.nontrivial_common(labels, stats)


def run_shard(ctx):
    bks = c03.backends(ctx)
    qmgen.drive_sequences(ctx, OWN, 4 if ctx.thorough else 3, nontrivial)
    qmgen.drive_enumeration(ctx, OWN, bks, 4 if ctx.thorough else 3, 3)
    strat = qmgen.history(qmgen.configs(bks, pools=True, announce=True, bounce=True), WEIGHTS)
    qmgen.drive_histories(ctx, OWN, strat, ctx.n(1000, 25000), nontrivial)
    qmgen.drive_histories(ctx, OWN, qmgen.burst_history(), ctx.n(1000, 25000), nontrivial, salt=7)


    # second engine: the real relays (SMTP, LMTP, pipe in both modes, HTTP) in front of scripted downstreams
    from vf import relaykinds

    def one(case):
        fails = [(s_, m) for s_, m in relaykinds.run_case(case) if s_.startswith('C01')]
        ctx.record(repr(case), len(case['rounds']) >= 1, labels=['relay-kinds', 'kind=' + case['kind']], case=case, failures=fails)
    hyp.drive(ctx, relaykinds.case_strategy, one, ctx.n(200, 4000), salt=11)
    # per-recipient delivery programs that never finish for one recipient while the backoff policy is giving up
    k = 0
    for n in (2, 3):
        for who in range(n):
            for backoff, nrounds in (([], 1), ([0], 2), ([0], 1)):
                k += 1
                if ctx.mine(k):
                    one({'family': 'relay-kinds', 'kind': 'pipe', 'nrcpt': n, 'sender': True, 'backoff': backoff,
                         'rounds': [{'r%d' % who: 'hang'}] * nrounds})
    qmgen.drive_histories(ctx, OWN, qmgen.restart_race_history(), ctx.n(600, 10000), nontrivial, salt=8)
    qmgen.drive_histories(ctx, OWN, qmgen.saturated_pool_history(), ctx.n(600, 10000), nontrivial, salt=9)
    qmgen.drive_histories(ctx, OWN, qmgen.announce_window_history(), ctx.n(800, 12000), nontrivial, salt=11)
    # a message the queue hears about twice must still reach its disposition (the scheduling details are C12's)
    qmgen.drive_histories(ctx, OWN, qmgen.double_report_history(), ctx.n(400, 8000), nontrivial, salt=13)
    qmgen.drive_histories(ctx, OWN, qmgen.enqueue_vs_load_history(), ctx.n(400, 8000), nontrivial, salt=14)
    qmgen.drive_histories(ctx, OWN, qmgen.own_write_announced_history(), ctx.n(400, 8000), nontrivial, salt=16)
    qmgen.drive_histories(ctx, OWN, qmgen.exhausted_dup_history(), ctx.n(200, 400), nontrivial, salt=18)
    qmgen.drive_histories(ctx, OWN, qmgen.sched_hold_history(), ctx.n(300, 6000), nontrivial, salt=19)


def replay(case):
    if case.get('family') == 'relay-kinds':
        from vf import relaykinds
        try:
            case = dict(case, nrcpt=max(1, min(3, int(case['nrcpt']))), backoff=[float(x) for x in case.get('backoff', [])][:4],
                        rounds=[r for r in case.get('rounds', []) if isinstance(r, dict)])
            if case.get('kind') not in ('smtp', 'lmtp', 'pipe', 'pipe-one', 'http'):
                return []
            return [(s_, m) for s_, m in relaykinds.run_case(case) if s_.startswith('C01')]
        except (KeyError, ValueError, TypeError):
            return []
    fails, _, _ = qm.run_history(case['cfg'], case.get('actions', []), OWN)
    return fails
