"""C05 - message content crosses DATA framing unchanged under any segmentation.

Round trip DataSender -> wire -> DataReader on a scripted socket.
"""
import itertools

from hypothesis import strategies as st

from vf import hyp
from vf.runner import hexb, unhex
from vf.transport import ScriptedSocket, cut

from slimta.smtp.io import IO
from slimta.smtp.datasender import DataSender
from slimta.smtp.datareader import DataReader

ID = 'C05'
LEVEL = 'exploration'
RULE = ('exhaustive part: every message over {".",CR,LF,"a"} up to length 7 (quick) / 9 (thorough) '
        'x every split into <=3 sender parts at LF boundaries (plus empty parts) x 6 trailers; one case = '
        '(message, wire variant, trailer), evaluated under one burst, byte-wise, every single cut point and '
        'every recv_buffer preload length (reader_runs counts those). random part: Hypothesis byte strings '
        'up to 12 KB with generated cut lists. non-trivial = message has a dot-leading line, a bare CR or LF, '
        'is empty, or a trailer follows; distinct = distinct (message, parts, trailer, segmentation) key')
ASSUMPTIONS = ['sender parts are cut only after an LF (as the callers do: header block / body)',
               'recv() never returns more than the 4096 bytes asked for']
EXHAUSTIVE_NOTE = 'alphabet {., CR, LF, a}, length bound 7 (quick) / 9 (thorough), all segmentations listed in rule'

ALPHABET = [b'.', b'\r', b'\n', b'a']
TRAILERS = [b'', b'QUIT\r\n', b'.\r\n', b'\r\n.\r\n', b'x', b'.']


def expected_content(msg):
    if msg == b'' or msg.endswith(b'\r\n'):
        return msg
    return msg + b'\r\n'


def run_reader(wire, trailer, preload, cuts):
    """Returns (content, leftover, recv_calls, needed_calls) or raises."""
    stream = wire + trailer
    rest = stream[preload:]
    segs = []
    for s in cut(rest, cuts):
        for i in range(0, len(s), 4096):
            segs.append(s[i:i + 4096])
    sock = ScriptedSocket(segs)
    io = IO(sock, ('peer', 1))
    io.recv_buffer = stream[:preload]
    reader = DataReader(io)
    content = reader.recv()
    leftover = io.recv_buffer + sock.unread()
    need = 0
    have = preload
    while have < len(wire):
        have += len(segs[need])
        need += 1
    return content, leftover, sock.recv_calls, need


def judge(msg, parts, trailer, preload, cuts):
    """Oracle for one (message, parts, trailer, segmentation)."""
    cls = 'empty-message' if msg == b'' else 'message'
    try:
        wire = b''.join(DataSender(*parts))
    except Exception as e:
        return [('C05:sender-exception:%s:%s' % (cls, type(e).__name__), repr(e))]
    try:
        content, leftover, calls, need = run_reader(wire, trailer, preload, cuts)
    except Exception as e:
        return [('C05:reader-exception:%s:%s' % (cls, type(e).__name__),
                 'wire=%r trailer=%r: %r' % (wire[:60], trailer[:20], e))]
    out = []
    exp = expected_content(msg)
    if content != exp:
        out.append(('C05:content:%s' % cls,
                    'wire=%r trailer=%r preload=%d cuts=%r: got %r expected %r'
                    % (wire[:60], trailer[:20], preload, cuts[:10], content[:60], exp[:60])))
    if leftover != trailer:
        out.append(('C05:leftover:%s' % cls,
                    'wire=%r trailer=%r preload=%d cuts=%r: left %r'
                    % (wire[:60], trailer[:20], preload, cuts[:10], leftover[:60])))
    if calls > need:
        out.append(('C05:read-past-end-of-data:%s' % cls,
                    'wire=%r trailer=%r preload=%d cuts=%r: %d recv calls, %d needed'
                    % (wire[:60], trailer[:20], preload, cuts[:10], calls, need)))
    return out


def nontrivial(msg, trailer):
    if msg == b'' or trailer:
        return True
    if msg.startswith(b'.') or b'\n.' in msg:
        return True
    stripped = msg.replace(b'\r\n', b'')
    return b'\r' in stripped or b'\n' in stripped


def part_splits(msg, max_parts=3):
    """All ways to cut msg after LFs into <= max_parts parts, plus empty-part variants."""
    points = [i + 1 for i, c in enumerate(msg) if c == 10 and i + 1 < len(msg)]
    seen = []
    for k in range(0, max_parts):
        for combo in itertools.combinations(points, k):
            seen.append(tuple(cut(msg, combo)) or (b'',))
    seen.append((b'', msg))
    seen.append((msg, b''))
    seen.append((b'', msg, b''))
    return seen


def segmentations(total, wire_len):
    """(preload, cuts) pairs: burst, byte-wise, every single cut, every preload."""
    yield 0, ()
    if total > 1:
        yield 0, tuple(range(1, total))
    for c in range(1, total):
        yield 0, (c,)
    for k in range(1, total + 1):
        yield k, ()
    # preload in the middle of the message, rest byte-wise
    if wire_len > 2:
        yield wire_len // 2, tuple(range(1, total))


def case_json(msg, parts, trailer, preload, cuts):
    return {'msg': hexb(msg), 'parts': [hexb(p) for p in parts], 'trailer': hexb(trailer),
            'preload': preload, 'cuts': list(cuts)}


def exhaustive(ctx, maxlen):
    runs = 0
    index = 0
    for n in range(0, maxlen + 1):
        for letters in itertools.product(ALPHABET, repeat=n):
            index += 1
            if not ctx.mine(index):
                continue
            msg = b''.join(letters)
            wires = {}
            for parts in part_splits(msg):
                try:
                    w = b''.join(DataSender(*parts))
                except Exception as e:
                    ctx.fail('C05:sender-exception:%s' % type(e).__name__,
                             case_json(msg, parts, b'', 0, ()), repr(e))
                    continue
                wires.setdefault(w, parts)
            for wire, parts in wires.items():
                for trailer in TRAILERS:
                    fails = []
                    total = len(wire) + len(trailer)
                    bad_seg = (0, ())
                    for preload, cuts in segmentations(total, len(wire)):
                        runs += 1
                        f = judge(msg, parts, trailer, preload, cuts)
                        if f and not fails:
                            fails = f
                            bad_seg = (preload, cuts)
                    ctx.record((msg, parts, trailer), nontrivial(msg, trailer),
                               labels=('exhaustive',
                                       'wire-variants>1' if len(wires) > 1 else 'wire-variants=1'),
                               case=lambda: case_json(msg, parts, trailer, *bad_seg),
                               failures=fails)
    ctx.extra['reader_runs'] = ctx.extra.get('reader_runs', 0) + runs


# -- reader with a size limit --------------------------------------------------------

def run_limited(wire, trailer, max_size, cuts):
    """-> (outcome, leftover); outcome = ('content', bytes) | ('exc', type name)"""
    stream = wire + trailer
    segs = []
    for s_ in cut(stream, cuts):
        for i in range(0, len(s_), 4096):
            segs.append(s_[i:i + 4096])
    sock = ScriptedSocket(segs)
    io = IO(sock, ('peer', 1))
    reader = DataReader(io, max_size)
    try:
        outcome = ('content', reader.recv())
    except Exception as e:
        outcome = ('exc', type(e).__name__)
    return outcome, io.recv_buffer + sock.unread()


def judge_limited(msg, trailer, max_size, cut_lists):
    """With a size limit the reader either returns the content or reports the message as too big; in both cases it consumes
    exactly up to the end-of-data line, and neither the outcome nor what is left unread depends on the segmentation."""
    wire = b''.join(DataSender(msg))
    base, left = run_limited(wire, trailer, max_size, ())
    out = []
    if base[0] == 'exc' and base[1] != 'MessageTooBig':
        return [('C05:limited-reader-exception:%s' % base[1], 'wire=%r max_size=%d' % (wire[:60], max_size))]
    if left != trailer:
        return [('C05:limited-leftover', 'wire=%r trailer=%r max_size=%d burst: outcome %r left %r'
                 % (wire[:60], trailer[:20], max_size, base[0] if base[0] == 'exc' else 'content', left[:40]))]
    if base[0] == 'content' and base[1] != expected_content(msg):
        return [('C05:limited-content', 'wire=%r max_size=%d: got %r' % (wire[:60], max_size, base[1][:60]))]
    for cuts in cut_lists:
        got, gl = run_limited(wire, trailer, max_size, cuts)
        if got != base or gl != left:
            out.append(('C05:limited-segmentation-dependent',
                        'wire=%r trailer=%r max_size=%d cuts=%r: burst -> (%r, left %r), cut -> (%r, left %r)'
                        % (wire[:60], trailer[:20], max_size, list(cuts)[:8], base[1] if base[0] == 'exc' else base[1][:30], left[:30],
                           got[1] if got[0] == 'exc' else got[1][:30], gl[:30])))
            break
    return out


def limited_part(ctx, maxlen):
    index = 0
    runs = 0
    for n in range(1, maxlen + 1):
        for letters in itertools.product(ALPHABET, repeat=n):
            msg = b''.join(letters)
            for max_size in (1, 2, 3, 4, 5, 6, 8):
                index += 1
                if not ctx.mine(index):
                    continue
                for trailer in (b'', b'QUIT\r\n', b'.\r\n'):
                    total = len(msg) + len(trailer) + 8
                    cut_lists = [tuple(range(1, total))] + [(c,) for c in range(1, total)] + \
                                [(a, b) for a in range(1, min(total, 9)) for b in range(a + 1, min(total, 10))]
                    runs += len(cut_lists) + 1
                    f = judge_limited(msg, trailer, max_size, cut_lists)
                    ctx.record(('limited', msg, max_size, trailer), True, labels=['size-limit', 'exhaustive'],
                               case=lambda: {'limited': True, 'msg': hexb(msg), 'max_size': max_size, 'trailer': hexb(trailer)},
                               failures=f)
    ctx.extra['reader_runs'] = ctx.extra.get('reader_runs', 0) + runs


@st.composite
def limited_case(draw):
    lines = draw(st.lists(st.sampled_from([b'a\r\n', b'line.\r\n', b'..\r\n', b'.x\r\n', b'0123456789\r\n', b'x.', b'\n', b'\r', b'. \r\n',
                                           b'QUIT\r\n', b'end.\r\n']), min_size=1, max_size=12))
    msg = b''.join(lines)
    max_size = draw(st.one_of(st.integers(1, 30), st.integers(max(1, len(msg) - 4), len(msg) + 6)))
    trailer = draw(st.sampled_from([b'', b'QUIT\r\n', b'.\r\n', b'MAIL FROM:<x>\r\n.\r\n']))
    return msg, max_size, trailer


def limited_random(ctx, n):
    def one(v):
        msg, max_size, trailer = v
        total = len(msg) + len(trailer) + 20
        marks = [i for i in range(total) if (msg + b'\r\n.\r\n' + trailer)[i:i + 1] == b'.']
        cut_lists = [tuple(range(1, total))] + [(m + o,) for m in marks[:10] for o in (0, 1, 2)] + \
                    [(m, m + 1) for m in marks[:6]] + [(m + 1, m + 2) for m in marks[:6]]
        f = judge_limited(msg, trailer, max_size, cut_lists)
        ctx.record(('limited', msg, max_size, trailer), True, labels=['size-limit', 'random'],
                   case=lambda: {'limited': True, 'msg': hexb(msg), 'max_size': max_size, 'trailer': hexb(trailer)}, failures=f)
    hyp.drive(ctx, limited_case(), one, n, salt=3)


# -- random part ----------------------------------------------------------------

_line_piece = st.one_of(
    st.sampled_from([b'.', b'..', b'\r', b'\n', b'\r\n', b'a', b'.\r\n', b'\r\n.', b' ', b'\t',
                     b'QUIT', b'\x00', b'\xff', b'.\r', b'\n.\n']),
    st.binary(min_size=1, max_size=40))

_message = st.one_of(
    st.lists(_line_piece, max_size=30).map(b''.join),
    st.binary(max_size=300),
    st.tuples(st.binary(min_size=1, max_size=64), st.integers(1, 190),
              st.lists(_line_piece, max_size=6).map(b''.join)
              ).map(lambda t: (t[0] * t[1])[:12000] + t[2]),
)

_trailer = st.one_of(st.sampled_from(TRAILERS), st.binary(max_size=40),
                     st.lists(_line_piece, max_size=6).map(b''.join))


@st.composite
def random_case(draw):
    msg = draw(_message)
    points = [i + 1 for i, c in enumerate(msg) if c == 10 and i + 1 < len(msg)]
    k = draw(st.integers(0, min(3, len(points))))
    splits = sorted(draw(st.lists(st.sampled_from(points), min_size=k, max_size=k,
                                  unique=True))) if k else []
    parts = tuple(cut(msg, splits)) or (b'',)
    trailer = draw(_trailer)
    # stream length is not known before sending; draw cut fractions instead
    cuts = draw(st.lists(st.integers(0, 14000), max_size=12))
    style = draw(st.sampled_from(['cuts', 'burst', 'bytes', 'cuts', 'preload']))
    preload = draw(st.integers(0, 64)) if style == 'preload' else 0
    return msg, parts, trailer, style, preload, sorted(set(cuts))


def random_part(ctx, n):
    def one(value):
        msg, parts, trailer, style, preload, cuts = value
        est = len(msg) + len(trailer) + 8
        if style == 'burst':
            cuts = []
        elif style == 'bytes':
            cuts = list(range(1, min(est, 600)))
        preload = min(preload, est)
        f = judge(msg, parts, trailer, preload, tuple(cuts))
        labels = ['random', 'style=' + style]
        if len(msg) > 4096:
            labels.append('crosses-4096')
        ctx.record((msg, parts, trailer, preload, tuple(cuts)), nontrivial(msg, trailer),
                   labels=labels,
                   case=lambda: case_json(msg, parts, trailer, preload, cuts), failures=f)
    hyp.drive(ctx, random_case(), one, n)


def run_shard(ctx):
    if ctx.thorough:
        from vf import fuzz
        fuzz.run(ctx, ID, 90, FUZZ_SEEDS)
    exhaustive(ctx, 9 if ctx.thorough else 7)
    limited_part(ctx, 6 if ctx.thorough else 4)
    limited_random(ctx, ctx.n(3000, 60000))
    random_part(ctx, ctx.n(20000, 400000))


def replay(case):
    if case.get('limited'):
        msg = unhex(case['msg'])
        trailer = unhex(case.get('trailer', ''))
        total = len(msg) + len(trailer) + 20
        cut_lists = [tuple(range(1, total))] + [(c,) for c in range(1, total)] + [(a, a + 1) for a in range(1, total)]
        return judge_limited(msg, trailer, max(1, int(case.get('max_size', 1))), cut_lists)
    msg = unhex(case['msg'])
    parts = tuple(unhex(p) for p in case.get('parts', [])) or (msg,)
    if b''.join(parts) != msg:
        parts = (msg,)
    return judge(msg, parts, unhex(case.get('trailer', '')), int(case.get('preload', 0)),
                 tuple(sorted(set(int(c) for c in case.get('cuts', [])))))


# -- coverage-guided tier (atheris) ---------------------------------------------------------------------

def fuzz_target(data):
    """bytes -> (message, trailer, preload, cuts)"""
    if len(data) < 4:
        return None, []
    tl = data[0] % 12
    preload = data[1] % 40
    ncuts = data[2] % 6
    cuts = sorted(set(data[3:3 + ncuts]))
    rest = data[3 + ncuts:]
    trailer = rest[:tl]
    msg = rest[tl:]
    points = [i + 1 for i, c in enumerate(msg) if c == 10 and i + 1 < len(msg)]
    parts = tuple(cut(msg, points[:2])) or (b'',)
    f = judge(msg, parts, trailer, min(preload, len(msg) + len(trailer) + 5), tuple(cuts))
    return case_json(msg, parts, trailer, preload, cuts), f


FUZZ_SEEDS = [b'\x00\x00\x00a\r\n.b\r\n', b'\x06\x03\x02\x05\x09QUIT\r\n.\r\n..\r\nx', b'\x03\x00\x01\x02.\r\n']
