"""C14 - no peer can hold a session or delivery attempt beyond its configured timeouts."""
import os
import time

import gevent
from gevent import socket as gsocket
from gevent.event import AsyncResult
from gevent.server import StreamServer

from vf import smtpmodel as sm
from vf.props.c08 import server_ctx, client_ctx, Wire
from vf.props import c11
from vf.peers import kill_relay

from slimta.edge.smtp import SmtpEdge
from slimta.envelope import Envelope
from slimta.relay import TransientRelayError, RelayError
from slimta.relay.smtp.static import StaticSmtpRelay, StaticLmtpRelay
from slimta.relay.pipe import PipeRelay
from slimta.relay.http import HttpRelay

ID = 'C14'
REALTIME = True      # runs on the wall clock: an unreproducible failure is re-run before it counts (see runner)
LEVEL = 'fault_enumeration'
RULE = ('fault enumeration in real time with small timeouts (command 0.05 s, data 0.1 s, connect 0.05 s, pipe/HTTP 0.1 s). server: a peer '
        'that stalls before any byte, after each command of a session, in the middle of a line, inside DATA, inside an AUTH LOGIN/PLAIN '
        'exchange (after each 334), inside the TLS handshake (STARTTLS or tls_immediately; silent or partial ClientHello), or trickles one '
        'byte per 0.02 s forever (in a line / in DATA / in an AUTH response). relay client (SMTP and LMTP, PIPELINING on/off, 1..2 '
        'recipients): peer stalls at connect, banner, EHLO/LHLO, STARTTLS, TLS handshake (after 220 / tls_immediately), second EHLO, AUTH, '
        'MAIL, RCPT, DATA, after end-of-data, RSET after a rejected transaction (MAIL / RCPT / end-of-data rejected, LMTP mixed), QUIT, or '
        'trickles a reply forever; unfinished reply while idle. pipe: child sleeps; HTTP: peer never answers / trickles / leaves the '
        'previous keep-alive response body unfinished. One case = one stall point x configuration; all cases of a shard run concurrently. '
        'non-trivial = stall after >=1 completed exchange; distinct = distinct case')
ASSUMPTIONS = ['wall clock; only "still blocked at the watchdog" (max(2 s, 20 x timeout), re-checked alone with 5 s) is judged: finishing late '
               'but before the watchdog passes, so machine load cannot create an alarm',
               'a stall at QUIT is bounded by the command timeout but the attempt result is already set earlier']

CMD_T = 0.05
DATA_T = 0.1
WATCHDOG = 2.0


# =====================================================================================
# server side
# =====================================================================================

AUTH_SCRIPTS = {
    # the stall happens inside the AUTH exchange: after the 334 challenge(s) the client owes a response line
    'login': [b'EHLO c.example\r\n', b'AUTH LOGIN\r\n', b'dXNlcg==\r\n', b'cGFzcw==\r\n', b'NOOP\r\n'],
    'plain': [b'EHLO c.example\r\n', b'AUTH PLAIN\r\n', b'AHVzZXIAcGFzcw==\r\n', b'NOOP\r\n'],
}

SERVER_SCRIPT = [b'EHLO c.example\r\n', b'MAIL FROM:<s@x.example>\r\n', b'RCPT TO:<r@y.example>\r\n', b'DATA\r\n',
                 b'Subject: t\r\n\r\nbody line one\r\nbody line two\r\n', b'.\r\n', b'NOOP\r\n']


def run_server_case(case, watchdog):
    queue = sm.CaptureQueue()
    tls = case.get('tls')
    SERVER_SCRIPT = AUTH_SCRIPTS[case['auth']] if case.get('auth') else globals()['SERVER_SCRIPT']
    edge = SmtpEdge(None, queue, hostname='edge', command_timeout=CMD_T * (4 if tls else 1), data_timeout=DATA_T * (4 if tls else 1),
                    context=server_ctx() if tls else None, tls_immediately=bool(tls),
                    auth=([b'PLAIN', b'LOGIN'] if case.get('auth') else False), max_size=case.get('max_size'))
    a, b = gsocket.socketpair()
    done = AsyncResult()

    def serve():
        try:
            edge.handle(a, ('10.0.0.1', 1))
        except Exception as e:
            done.set(repr(e))
            return
        done.set(None)
    g = gevent.spawn(serve)
    w = Wire(b)
    out = []
    desc = repr(case)
    t0 = time.time()
    stop = gevent.event.Event()

    def client():
        try:
            if tls:
                nonlocal_b[0] = client_ctx().wrap_socket(b, server_hostname='peer.example')
                w.sock = nonlocal_b[0]
            w.read_reply(timeout=2)
            k = case['after']           # number of script steps completed before the stall
            mode = case['mode']
            rest = SERVER_SCRIPT[k] if k < len(SERVER_SCRIPT) else b'NOOP\r\n'
            steps = list(SERVER_SCRIPT[:k])
            if mode == 'pipelined-partial' and steps:
                # the beginning of the next line arrives in the same segment as the end of the previous command
                steps[-1] = steps[-1] + rest[:max(1, len(rest) // 2)].rstrip(b'\r\n')
            for step in steps:
                nonlocal_b[0].sendall(step)
                if b'\r\n' in step and not step.startswith(b'Subject:'):
                    w.read_reply(timeout=2)
            if mode == 'silent':
                pass
            elif mode == 'midline':
                nonlocal_b[0].sendall(rest[:max(1, len(rest) // 2)].rstrip(b'\r\n'))
            elif mode == 'trickle':
                filler = rest.rstrip(b'\r\n') + b' ' + b'x' * 4000
                for i in range(len(filler)):
                    if stop.is_set():
                        break
                    nonlocal_b[0].sendall(filler[i:i + 1])
                    gevent.sleep(0.02)
        except (OSError, Exception):
            pass
    nonlocal_b = [b]
    c = gevent.spawn(client)
    try:
        g.join(timeout=watchdog)
        elapsed = time.time() - t0
        if not g.dead:
            out.append(('C14:server-session-outlives-timeouts:%s' % case['mode'],
                        '%s: session still open %.1f s after the stall began (command timeout %.2f, data timeout %.2f)'
                        % (desc, elapsed, CMD_T, DATA_T)))
        else:
            stop.set()
            c.join(timeout=1)
            # everything the server wrote: the last reply must be the 421
            try:
                bb = nonlocal_b[0]
                bb.settimeout(0.2)
                while True:
                    piece = bb.recv(4096)
                    if not piece:
                        break
                    w.buf += piece
            except Exception:
                pass
            replies, _ = sm.parse_replies(w.buf)
            if not replies or replies[-1][0] != '421':
                out.append(('C14:server-closed-without-421:%s' % case['mode'],
                            '%s: session ended after %.2f s, last replies %r' % (desc, elapsed, [r[0] for r in replies[-3:]])))
    finally:
        stop.set()
        for x in (g, c):
            if not x.dead:
                x.kill(block=False)
        for s in (a, b):
            try:
                s.close()
            except Exception:
                pass
    return out, case['after'] >= 1


def run_server_tls_case(case, watchdog):
    # the exchange before the stall races with the (short) command timeout on a loaded machine: a set-up that does not get through
    # is repeated, and is inconclusive (never a violation) if it keeps failing
    for _ in range(3):
        out, nt = _run_server_tls_case(case, watchdog)
        if not any(sig == 'C14:harness-error' for sig, _ in out):
            return out, nt
    return [], False


def _run_server_tls_case(case, watchdog):
    """The client makes the server start a TLS handshake (tls_immediately or STARTTLS + 220) and then never takes part in it."""
    queue = sm.CaptureQueue()
    imm = case['how'] == 'immediate'
    edge = SmtpEdge(None, queue, hostname='edge', command_timeout=CMD_T * 6, data_timeout=DATA_T * 6, context=server_ctx(),
                    tls_immediately=imm)
    a, b = gsocket.socketpair()
    g = gevent.spawn(lambda: edge.handle(a, ('10.0.0.1', 1)))
    out = []
    t0 = time.time()
    try:
        w = Wire(b)
        if not imm:
            w.read_reply(timeout=2)
            b.sendall(b'EHLO c.example\r\n')
            w.read_reply(timeout=2)
            b.sendall(b'STARTTLS\r\n')
            w.read_reply(timeout=2)
        if case['mode'] == 'partial':
            b.sendall(b'\x16\x03\x01\x02\x00\x01\x00')       # the beginning of a ClientHello record, never completed
        g.join(timeout=watchdog)
        if not g.dead:
            out.append(('C14:server-session-outlives-timeouts:tls-handshake',
                        '%r: session still open %.1f s after the client stopped inside the TLS handshake (command timeout %.2f)'
                        % (case, time.time() - t0, CMD_T * 6)))
    except Exception as e:
        out.append(('C14:harness-error', '%r: %r' % (case, e)))
    finally:
        if not g.dead:
            g.kill(block=False)
        for s_ in (a, b):
            try:
                s_.close()
            except Exception:
                pass
    return out, True


def run_server_pp_case(case, watchdog):
    """SMTP edge behind the PROXY protocol mix-in: the peer never sends (or never finishes) the PROXY header."""
    from slimta.util.proxyproto import ProxyProtocol, ProxyProtocolV1, ProxyProtocolV2
    mix = {'v1': ProxyProtocolV1, 'v2': ProxyProtocolV2, 'auto': ProxyProtocol}[case['version']]
    cls = type('PP%sEdge' % case['version'], (mix, SmtpEdge), {})
    edge = cls(None, sm.CaptureQueue(), hostname='edge', command_timeout=CMD_T * 2, data_timeout=DATA_T * 2)
    a, b = gsocket.socketpair()
    g = gevent.spawn(lambda: edge.handle(a, ('10.0.0.1', 1)))
    out = []
    t0 = time.time()
    try:
        if case['mode'] == 'partial':
            b.sendall(b'PROXY TCP4 1.2.3' if case['version'] != 'v2' else b'\r\n\r\n\x00\r\nQUI')
        g.join(timeout=watchdog)
        if not g.dead:
            out.append(('C14:server-session-outlives-timeouts:proxy-header',
                        '%r: connection still held %.1f s after the peer stopped inside the PROXY header (command timeout %.2f)'
                        % (case, time.time() - t0, CMD_T * 2)))
    finally:
        if not g.dead:
            g.kill(block=False)
        for s_ in (a, b):
            try:
                s_.close()
            except Exception:
                pass
    return out, True


def run_server_noread_case(case, watchdog):
    """The client pipelines commands without end and never reads a reply: the server's writes must not block it forever."""
    queue = sm.CaptureQueue()
    edge = SmtpEdge(None, queue, hostname='edge', command_timeout=CMD_T * 2, data_timeout=DATA_T * 2)
    a, b = gsocket.socketpair()
    g = gevent.spawn(lambda: edge.handle(a, ('10.0.0.1', 1)))
    out = []
    t0 = time.time()

    def flood():
        try:
            b.sendall(b'EHLO c.example\r\n')
            line = {'noop': b'NOOP\r\n', 'ehlo': b'EHLO again.example\r\n', 'bad': b'FOOBAR\r\n'}[case['what']]
            for _ in range(4000):
                b.sendall(line * 50)
        except Exception:
            pass
    c = gevent.spawn(flood)
    try:
        g.join(timeout=max(watchdog, 4.0))
        if not g.dead:
            out.append(('C14:server-session-outlives-timeouts:peer-never-reads',
                        '%r: session still open %.1f s after the peer stopped reading the replies (command timeout %.2f)'
                        % (case, time.time() - t0, CMD_T * 2)))
    finally:
        for x in (g, c):
            if not x.dead:
                x.kill(block=False)
        for s_ in (a, b):
            try:
                s_.close()
            except Exception:
                pass
    return out, True


def server_cases():
    for what in ('noop', 'ehlo', 'bad'):
        yield {'family': 'server-noread', 'what': what}
    for version in ('v1', 'v2', 'auto'):
        for mode in ('silent', 'partial'):
            yield {'family': 'server-pp', 'version': version, 'mode': mode}
    for how in ('immediate', 'starttls'):
        for mode in ('silent', 'partial'):
            yield {'family': 'server-tls', 'how': how, 'mode': mode}
    for after in range(0, len(SERVER_SCRIPT)):
        for mode in ('silent', 'midline', 'trickle', 'pipelined-partial'):
            if mode == 'pipelined-partial' and after == 0:
                continue
            yield {'family': 'server', 'after': after, 'mode': mode}
            if mode == 'silent' and after in (0, 2, 4):
                yield {'family': 'server', 'after': after, 'mode': mode, 'tls': True}
            if after in (4, 5) and mode != 'pipelined-partial':
                # SIZE limit configured and exceeded inside DATA (by the content already sent, or by the trickle): the rest
                # of an oversized message is skipped under the same data timeout
                yield {'family': 'server', 'after': after, 'mode': mode, 'max_size': 20}
    for auth, script in sorted(AUTH_SCRIPTS.items()):
        for after in range(2, len(script)):
            for mode in ('silent', 'midline', 'trickle'):
                for tls in (True, False):
                    c = {'family': 'server', 'after': after, 'mode': mode, 'auth': auth}
                    if tls:
                        c['tls'] = True
                    yield c


# =====================================================================================
# relay client side
# =====================================================================================

CLIENT_STAGES = ['connect', 'banner', 'EHLO', 'HELO', 'STARTTLS', 'TLS-handshake', 'TLS-immediate', 'EHLO2', 'AUTH', 'MAIL', 'RCPT', 'DATA',
                 'EOD', 'RSET', 'QUIT']


class StallPeer(object):
    """Greenlet-driven SMTP/LMTP peer on a real socket that stalls (or trickles) at one stage."""

    def __init__(self, sock, case):
        self.sock = sock
        self.case = case
        self.reached = False
        self.g = gevent.spawn(self.run)

    def reply(self, stage, text):
        c = self.case
        if c['stage'] == stage:
            self.reached = True
            if c['mode'] == 'silent':
                gevent.sleep(3600)
            else:
                data = text.rstrip(b'\r\n') + b'x' * 3000        # never completes the line
                for i in range(len(data)):
                    self.sock.sendall(data[i:i + 1])
                    gevent.sleep(0.02)
                gevent.sleep(3600)
        self.sock.sendall(text)

    def run(self):
        c = self.case
        lmtp = c['kind'] == 'lmtp'
        rej = c.get('reject')
        try:
            f = self.sock.makefile('rb')
            if c['stage'] == 'TLS-immediate':
                self.reached = True
                if c['mode'] == 'trickle':
                    self.sock.sendall(b'\x16\x03\x03')          # looks like the start of a handshake record
                gevent.sleep(3600)
            self.reply('banner', b'220 peer ready\r\n')
            nehlo = 0
            nrcpt = 0
            sock = self.sock
            while True:
                line = f.readline()
                if not line:
                    return
                verb = line.split(b' ')[0].strip().upper()
                if verb == b'EHLO' and c['stage'] == 'HELO':
                    self.sock.sendall(b'500 5.5.1 command not recognized\r\n')      # the client falls back to HELO
                elif verb == b'HELO':
                    self.reply('HELO', b'250 peer\r\n')
                elif verb in (b'EHLO', b'LHLO'):
                    nehlo += 1
                    exts = [b'8BITMIME']
                    if c['pipelining']:
                        exts.append(b'PIPELINING')
                    if c['stage'] in ('STARTTLS', 'EHLO2', 'TLS-handshake') and nehlo == 1:
                        exts.append(b'STARTTLS')
                    if c['stage'] == 'AUTH':
                        exts.append(b'AUTH PLAIN')
                    text = b'250-peer\r\n' + b''.join(b'250-' + e + b'\r\n' for e in exts[:-1]) + b'250 ' + exts[-1] + b'\r\n'
                    self.reply('EHLO' if nehlo == 1 else 'EHLO2', text)
                elif verb == b'STARTTLS':
                    self.reply('STARTTLS', b'220 go\r\n')
                    if c['stage'] == 'TLS-handshake':
                        self.reached = True
                        gevent.sleep(3600)                       # the 220 was sent, the handshake never starts
                    self.sock = server_ctx().wrap_socket(self.sock, server_side=True)
                    f = self.sock.makefile('rb')
                elif verb == b'AUTH':
                    self.reply('AUTH', b'235 ok\r\n')
                elif verb == b'MAIL':
                    nrcpt = 0
                    self.reply('MAIL', b'550 5.7.1 no\r\n' if rej == 'mail' else b'250 2.1.0 ok\r\n')
                elif verb == b'RCPT':
                    nrcpt += 1
                    if rej == 'mail':
                        self.sock.sendall(b'503 5.5.1 no sender\r\n')
                    else:
                        self.reply('RCPT', b'550 5.1.1 no\r\n' if rej == 'rcpt' else b'250 2.1.5 ok\r\n')
                elif verb == b'DATA':
                    if rej in ('mail', 'rcpt'):
                        self.sock.sendall(b'503 5.5.1 no recipients\r\n')
                        continue
                    self.reply('DATA', b'354 go\r\n')
                    while True:
                        l = f.readline()
                        if not l or l == b'.\r\n':
                            break
                    for k in range(nrcpt if lmtp else 1):
                        if rej == 'eod' or (rej == 'eod-mixed' and k == nrcpt - 1):
                            self.reply('EOD', b'450 4.2.0 later\r\n')
                        else:
                            self.reply('EOD', b'250 2.0.0 queued\r\n')
                elif verb == b'RSET':
                    self.reply('RSET', b'250 ok\r\n')
                elif verb == b'QUIT':
                    self.reply('QUIT', b'221 bye\r\n')
                    return
                else:
                    self.sock.sendall(b'500 what\r\n')
        except Exception:
            pass

    def kill(self):
        if not self.g.dead:
            self.g.kill(block=False)
        try:
            self.sock.close()
        except Exception:
            pass


def run_client_case(case, watchdog):
    # On a loaded machine the 50 ms command timeout can fire before the scripted stall point; such a run says nothing
    # about the stall, so it is repeated (and counted as trivial if the stall point is never reached).
    for attempt_no in range(4):
        out, nontrivial, reached = _run_client_case(case, watchdog)
        if out or reached:
            return out, nontrivial
    return out, False


def _run_client_case(case, watchdog):
    peers = []

    def creator(address):
        if case['stage'] == 'connect':
            gevent.sleep(3600)
        a, b = gsocket.socketpair()
        peers.append((StallPeer(b, case), a))
        return a
    cls = StaticLmtpRelay if case['kind'] == 'lmtp' else StaticSmtpRelay
    relay = cls('peer.example', 25, socket_creator=creator, context=client_ctx(), ehlo_as='relay.example',
                connect_timeout=CMD_T, command_timeout=CMD_T, data_timeout=DATA_T,
                credentials=('u', 'p') if case['stage'] == 'AUTH' else None, tls_immediately=(case['stage'] == 'TLS-immediate'),
                idle_timeout=(1.0 if case['stage'] == 'RSET' else None))
    env = c11.make_env(case['nrcpt'], 't')
    got = AsyncResult()
    desc = repr(case)
    t0 = time.time()

    def go():
        try:
            got.set(('ok', relay.attempt(env, 0)))
        except BaseException as e:
            got.set(('exc', e))
    g = gevent.spawn(go)
    out = []
    try:
        g.join(timeout=watchdog)
        elapsed = time.time() - t0
        if not got.ready():
            out.append(('C14:relay-attempt-outlives-timeouts:%s:%s' % (case['stage'], case['mode']),
                        '%s: attempt() still blocked after %.1f s (timeouts: connect/command %.2f, data %.2f)'
                        % (desc, elapsed, CMD_T, DATA_T)))
        else:
            kind, res = got.get()
            if case['stage'] in ('QUIT', 'RSET'):
                pass            # the result was determined before the stall; only termination is judged
            elif case['stage'] == 'STARTTLS' and kind == 'ok':
                pass            # STARTTLS not required: the relay may carry on in clear text
            elif kind == 'ok' or not isinstance(res, TransientRelayError):
                out.append(('C14:stalled-attempt-not-transient:%s' % case['stage'],
                            '%s: attempt ended after %.2f s with %r' % (desc, elapsed, res)))
            # the client greenlets must be gone as well (bounded by the command timeout at QUIT/RSET)
        if not out:
            t1 = time.time()
            while any(not c.dead for c in list(relay.pool)) and time.time() - t1 < watchdog:
                gevent.sleep(0.01)
            if any(not c.dead for c in list(relay.pool)):
                out.append(('C14:relay-client-outlives-timeouts:%s:%s' % (case['stage'], case['mode']),
                            '%s: the connection is still held %.1f s after the stall' % (desc, time.time() - t0)))
    finally:
        if not g.dead:
            g.kill(block=False)
        kill_relay(relay)
        for p, a in peers:
            p.kill()
            try:
                a.close()
            except Exception:
                pass
    reached = case['stage'] == 'connect' or any(p.reached for p, a in peers)
    return out, case['stage'] not in ('connect', 'banner', 'TLS-immediate'), reached


def run_client_idle_case(case, watchdog):
    """A first message succeeds; while the connection is idle the peer sends an unfinished reply and goes silent."""
    peers = []

    def creator(address):
        a, b = gsocket.socketpair()

        def serve():
            try:
                f = b.makefile('rb')
                b.sendall(b'220 peer\r\n')
                ndata = 0
                while True:
                    line = f.readline()
                    if not line:
                        return
                    verb = line.split(b' ')[0].strip().upper()
                    if verb in (b'EHLO', b'LHLO'):
                        b.sendall(b'250-peer\r\n250 PIPELINING\r\n' if case['pipelining'] else b'250 peer\r\n')
                    elif verb == b'DATA':
                        b.sendall(b'354 go\r\n')
                        while True:
                            l = f.readline()
                            if not l or l == b'.\r\n':
                                break
                        b.sendall(b'250 2.0.0 queued\r\n')
                        ndata += 1
                        if ndata == 1:
                            gevent.sleep(0.05)
                            b.sendall(case['partial'].encode())
                            gevent.sleep(3600)
                    elif verb == b'QUIT':
                        b.sendall(b'221 bye\r\n')
                        return
                    else:
                        b.sendall(b'250 2.0.0 ok\r\n')
            except Exception:
                pass
        peers.append((gevent.spawn(serve), a, b))
        return a
    cls = StaticLmtpRelay if case['kind'] == 'lmtp' else StaticSmtpRelay
    relay = cls('peer.example', 25, socket_creator=creator, context=client_ctx(), ehlo_as='relay.example', pool_size=1,
                connect_timeout=CMD_T, command_timeout=CMD_T, data_timeout=DATA_T, idle_timeout=2.0)
    out = []
    desc = repr(case)
    t0 = time.time()
    try:
        first = relay.attempt(c11.make_env(1, 'a'), 0)
        gevent.sleep(0.12)
        got = AsyncResult()

        def go():
            try:
                got.set(('ok', relay.attempt(c11.make_env(1, 'b'), 0)))
            except BaseException as e:
                got.set(('exc', e))
        g = gevent.spawn(go)
        g.join(timeout=watchdog)
        if not got.ready():
            out.append(('C14:relay-attempt-outlives-timeouts:idle-partial-reply',
                        '%s: second attempt on the reused connection still blocked after %.1f s' % (desc, time.time() - t0)))
            g.kill(block=False)
        else:
            kind, res = got.get()
            if kind == 'exc' and not isinstance(res, RelayError):
                out.append(('C14:stalled-attempt-not-transient:idle-partial-reply', '%s: %r' % (desc, res)))
    except RelayError:
        pass
    finally:
        kill_relay(relay)
        for g_, a, b in peers:
            if not g_.dead:
                g_.kill(block=False)
            for s_ in (a, b):
                try:
                    s_.close()
                except Exception:
                    pass
    return out, True


def client_idle_cases():
    for kind in ('smtp', 'lmtp'):
        for pipelining in (True, False):
            for partial in ('421 4.4.2 Connection tim', '4', '421-first line\r\n421 secon'):
                yield {'family': 'client-idle', 'kind': kind, 'pipelining': pipelining, 'partial': partial}


def client_cases():
    for kind in ('smtp', 'lmtp'):
        for pipelining in (True, False):
            for stage in CLIENT_STAGES:
                for mode in ('silent', 'trickle'):
                    if stage == 'connect' and mode == 'trickle':
                        continue
                    if stage == 'HELO' and kind == 'lmtp':
                        continue
                    if stage == 'RSET':
                        continue            # sent only after a rejected transaction: the cases below
                    for nrcpt in (1, 2):
                        if nrcpt == 2 and stage not in ('RCPT', 'EOD', 'DATA'):
                            continue
                        yield {'family': 'client', 'kind': kind, 'pipelining': pipelining, 'stage': stage, 'mode': mode, 'nrcpt': nrcpt}
            # the transaction is reset only after a rejected message: stall at that RSET
            for reject in ('mail', 'rcpt', 'eod', 'eod-mixed'):
                if reject == 'eod-mixed' and kind != 'lmtp':
                    continue
                for mode in ('silent', 'trickle'):
                    yield {'family': 'client', 'kind': kind, 'pipelining': pipelining, 'stage': 'RSET', 'mode': mode,
                           'nrcpt': 2 if reject == 'eod-mixed' else 1, 'reject': reject}


# =====================================================================================
# pipe and HTTP
# =====================================================================================

_PIPE_SEQ = [0]


def run_pipe_case(case, watchdog):
    _PIPE_SEQ[0] += 1
    nap = 'sleep 3333.%d%03d' % (os.getpid(), _PIPE_SEQ[0])       # unique, so that the clean-up of one case cannot rescue another
    prog = 'cat >/dev/null; ' + nap
    if case.get('child') == 'ignores-term':
        prog = "trap '' TERM; cat >/dev/null; " + nap       # a delivery program that cannot be asked politely to stop
    elif case.get('child') == 'no-stdin-read':
        prog = nap
    relay = PipeRelay(['/bin/sh', '-c', prog], timeout=0.3)     # long enough for the fork itself on a busy machine
    relay.per_recipient = case['per_recipient']
    env = c11.make_env(2 if case['per_recipient'] else 1, 'p')
    got = AsyncResult()
    t0 = time.time()

    def go():
        try:
            got.set(('ok', relay.attempt(env, 0)))
        except BaseException as e:
            got.set(('exc', e))
    g = gevent.spawn(go)
    g.join(timeout=watchdog)
    out = []
    if not got.ready():
        out.append(('C14:pipe-attempt-outlives-timeout', '%r: still blocked after %.1f s' % (case, time.time() - t0)))
        g.kill(block=False)
    else:
        kind, res = got.get()
        verdicts, bad = c11.classify_result(c11.Raised(res) if kind == 'exc' else res, list(env.recipients))
        if bad or any(v != 'temp' for v in verdicts.values()):
            out.append(('C14:stalled-attempt-not-transient:pipe', '%r: %r' % (case, res)))
    os.system('pkill -9 -f "%s" >/dev/null 2>&1' % ('[s]' + nap[1:]).replace('.', '[.]'))
    return out, True


def run_http_case(case, watchdog):
    conns = []

    def handle(sock, addr):
        conns.append(sock)
        try:
            if case['mode'] == 'silent':
                gevent.sleep(3600)
            elif case['mode'] == 'trickle':
                data = b'HTTP/1.1 200 OK\r\nContent-Length: 100000\r\n\r\n' + b'x' * 5000
                sock.recv(65536)
                for i in range(len(data)):
                    sock.sendall(data[i:i + 1])
                    gevent.sleep(0.02)
            elif case['mode'] == 'trickle-headers':
                sock.recv(65536)
                data = b'HTTP/1.1 200 OK\r\nX-Filler: ' + b'x' * 5000
                for i in range(len(data)):
                    sock.sendall(data[i:i + 1])
                    gevent.sleep(0.02)
        except Exception:
            pass
    server = StreamServer(('127.0.0.1', 0), handle)
    server.start()
    relay = HttpRelay('http://127.0.0.1:%d/' % server.server_port, timeout=0.1, ehlo_as='relay.example')
    env = c11.make_env(1, 'h')
    got = AsyncResult()
    t0 = time.time()

    def go():
        try:
            got.set(('ok', relay.attempt(env, 0)))
        except BaseException as e:
            got.set(('exc', e))
    g = gevent.spawn(go)
    out = []
    try:
        g.join(timeout=watchdog)
        if not got.ready():
            out.append(('C14:http-attempt-outlives-timeout:%s' % case['mode'], '%r: still blocked after %.1f s' % (case, time.time() - t0)))
        else:
            kind, res = got.get()
            if kind == 'ok' or not isinstance(res, TransientRelayError):
                out.append(('C14:stalled-attempt-not-transient:http', '%r: %r' % (case, res)))
    finally:
        if not g.dead:
            g.kill(block=False)
        kill_relay(relay)
        server.stop()
        for s in conns:
            try:
                s.close()
            except Exception:
                pass
    return out, True


def run_https_case(case, watchdog):
    """HTTPS relay: the peer never takes part in the TLS handshake, or completes it, reads the request and never answers
    (nor closes the TLS session)."""
    conns = []

    def handle(sock, addr):
        conns.append(sock)
        try:
            if case['mode'] == 'handshake':
                gevent.sleep(3600)
            tls = server_ctx().wrap_socket(sock, server_side=True)
            conns.append(tls)
            tls.recv(65536)
            gevent.sleep(3600)
        except Exception:
            pass
    server = StreamServer(('127.0.0.1', 0), handle)
    server.start()
    relay = HttpRelay('https://127.0.0.1:%d/' % server.server_port, timeout=0.3, ehlo_as='relay.example', context=client_ctx())
    env = c11.make_env(1, 'h')
    got = AsyncResult()
    t0 = time.time()

    def go():
        try:
            got.set(('ok', relay.attempt(env, 0)))
        except BaseException as e:
            got.set(('exc', e))
    g = gevent.spawn(go)
    out = []
    try:
        g.join(timeout=max(watchdog, 3.0))
        if not got.ready():
            out.append(('C14:http-attempt-outlives-timeout:https-%s' % case['mode'], '%r: still blocked after %.1f s' % (case, time.time() - t0)))
        else:
            kind, res = got.get()
            if kind == 'ok' or not isinstance(res, RelayError):
                out.append(('C14:stalled-attempt-not-transient:https', '%r: %r' % (case, res)))
    finally:
        if not g.dead:
            g.kill(block=False)
        try:
            kill_relay(relay)
        except Exception:
            pass
        server.stop()
        for s_ in conns:
            try:
                s_.close()
            except Exception:
                pass
    return out, True


def run_http_reuse_case(case, watchdog):
    """The first request on a kept-alive connection is answered, but its response body never completes; the second attempt re-uses
    the connection and must still end within the relay timeout."""
    conns = []

    def handle(sock, addr):
        conns.append(sock)
        try:
            f = sock.makefile('rb')
            n = 0
            while True:
                line = f.readline()
                if not line:
                    return
                length = 0
                while line not in (b'\r\n', b'\n', b''):
                    if line.lower().startswith(b'content-length:'):
                        length = int(line.split(b':')[1])
                    line = f.readline()
                f.read(length)
                n += 1
                if n == 1:
                    status = b'200 OK' if case['first'] == 'ok' else b'503 Busy'
                    sock.sendall(b'HTTP/1.1 ' + status + b'\r\nX-Smtp-Reply: ' + (b'250' if case['first'] == 'ok' else b'450') +
                                 b'; message="m"\r\nContent-Length: 100000\r\n\r\n' + b'y' * 10)
                    if case['mode'] == 'trickle':
                        for _ in range(5000):
                            sock.sendall(b'y')
                            gevent.sleep(0.02)
                    gevent.sleep(3600)
                else:
                    sock.sendall(b'HTTP/1.1 200 OK\r\nX-Smtp-Reply: 250; message="m"\r\nContent-Length: 0\r\n\r\n')
        except Exception:
            pass
    server = StreamServer(('127.0.0.1', 0), handle)
    server.start()
    relay = HttpRelay('http://127.0.0.1:%d/' % server.server_port, timeout=0.1, ehlo_as='relay.example', idle_timeout=2.0, pool_size=1)
    out = []
    t0 = time.time()
    g = None
    try:
        try:
            relay.attempt(c11.make_env(1, 'h1'), 0)
        except RelayError:
            pass
        got = AsyncResult()

        def go():
            try:
                got.set(('ok', relay.attempt(c11.make_env(1, 'h2'), 0)))
            except BaseException as e:
                got.set(('exc', e))
        g = gevent.spawn(go)
        g.join(timeout=watchdog)
        if not got.ready():
            out.append(('C14:http-attempt-outlives-timeout:reuse-%s' % case['mode'],
                        '%r: second attempt on the kept-alive connection still blocked after %.1f s' % (case, time.time() - t0)))
        else:
            kind, res = got.get()
            if kind == 'exc' and not isinstance(res, RelayError):
                out.append(('C14:stalled-attempt-not-transient:http-reuse', '%r: %r' % (case, res)))
    finally:
        if g is not None and not g.dead:
            g.kill(block=False)
        kill_relay(relay)
        server.stop()
        for s_ in conns:
            try:
                s_.close()
            except Exception:
                pass
    return out, True


def other_cases():
    for first in ('ok', 'error'):
        for mode in ('silent', 'trickle'):
            yield {'family': 'http-reuse', 'first': first, 'mode': mode}
    for mode in ('handshake', 'response'):
        yield {'family': 'https', 'mode': mode}
    for per in (True, False):
        yield {'family': 'pipe', 'per_recipient': per}
        yield {'family': 'pipe', 'per_recipient': per, 'child': 'ignores-term'}
        yield {'family': 'pipe', 'per_recipient': per, 'child': 'no-stdin-read'}
    for mode in ('silent', 'trickle', 'trickle-headers'):
        yield {'family': 'http', 'mode': mode}


def run_hog_case(case, watchdog):
    """One peer sends a single complete line built to be expensive to parse; meanwhile a *silent* session on the same hub must
    still get its 421 in time (these cases run one at a time)."""
    n = case['n']
    edge = SmtpEdge(None, sm.CaptureQueue(), hostname='edge', command_timeout=CMD_T, data_timeout=DATA_T)
    a, b = gsocket.socketpair()
    g = gevent.spawn(lambda: edge.handle(a, ('10.0.0.1', 1)))        # the silent session
    t0 = time.time()
    extra = []
    peers = []
    relay = None
    try:
        if case['side'] == 'server':
            line = {'arg': b'NOOP x' + b' ' * n + b'x\r\n', 'mail': b'MAIL FROM:<a@b.example> X=' + b' ' * n + b'y\r\n',
                    'tab': b'NOOP\tx' + b'\t ' * (n // 2) + b'x\r\n'}[case['line']]
            c, d = gsocket.socketpair()
            extra.append(gevent.spawn(lambda: edge.handle(c, ('10.0.0.2', 2))))
            d.sendall(b'EHLO x\r\n' + line)
            extra.append(d)
        else:
            def creator(address):
                x, y = gsocket.socketpair()

                def serve():
                    try:
                        y.sendall(b'220 peer\r\n')
                        y.recv(4096)
                        y.sendall(b'250-peer\r\n250-XTEST a' + b' ' * n + b'b\r\n250 8BITMIME\r\n')
                        gevent.sleep(3600)
                    except Exception:
                        pass
                peers.append((gevent.spawn(serve), x, y))
                return x
            relay = StaticSmtpRelay('peer.example', 25, socket_creator=creator, ehlo_as='relay.example', connect_timeout=CMD_T,
                                    command_timeout=CMD_T, data_timeout=DATA_T)
            extra.append(gevent.spawn(lambda: relay.attempt(c11.make_env(1, 'h'), 0)))
        g.join(timeout=watchdog + 20)
        elapsed = time.time() - t0
        out = []
        if not g.dead or elapsed > watchdog:
            out.append(('C14:silent-session-held-up-by-another-peer:%s' % case['side'],
                        '%r: a silent session got its 421 after %.1f s (command timeout %.2f s) while another peer\'s %d-byte line '
                        'was being parsed' % (case, elapsed, CMD_T, n)))
        return out, True
    finally:
        for x in [g] + extra:
            if hasattr(x, 'kill'):
                if not x.dead:
                    x.kill(block=False)
            else:
                try:
                    x.close()
                except Exception:
                    pass
        if relay is not None:
            kill_relay(relay)
        for pg, x, y in peers:
            if not pg.dead:
                pg.kill(block=False)
            for s_ in (x, y):
                try:
                    s_.close()
                except Exception:
                    pass
        for s_ in (a, b):
            try:
                s_.close()
            except Exception:
                pass


def hog_cases():
    for line in ('arg', 'mail', 'tab'):
        yield {'family': 'hog', 'side': 'server', 'line': line, 'n': 40000}
    yield {'family': 'hog', 'side': 'client', 'n': 40000}


RUN = {'hog': run_hog_case, 'server': run_server_case, 'server-tls': run_server_tls_case, 'server-noread': run_server_noread_case, 'server-pp': run_server_pp_case, 'client': run_client_case, 'client-idle': run_client_idle_case, 'pipe': run_pipe_case,
       'http': run_http_case, 'http-reuse': run_http_reuse_case, 'https': run_https_case}


def run_shard(ctx):
    cases = list(server_cases()) + list(client_cases()) + list(client_idle_cases()) + list(other_cases())
    if ctx.thorough:
        cases = cases * 3
    mine = [(i, c) for i, c in enumerate(cases) if ctx.mine(i)]
    results = {}

    def worker(i, case):
        results[i] = RUN[case['family']](case, WATCHDOG)
    gs = [gevent.spawn(worker, i, c) for i, c in mine]
    gevent.joinall(gs, timeout=60)
    for i, case in mine:
        f, nt = results.get(i, ([('C14:harness-case-did-not-finish', repr(case))], False))
        if f and not any(s.startswith('C14:harness') for s, _ in f):
            # re-run alone with a generous watchdog before it counts
            f, nt = RUN[case['family']](case, 5.0)
        ctx.record((repr(case), i), nt, labels=['family=' + case['family']], case=case, failures=f)
    # cases that measure what one peer can do to the *other* sessions of the process run one at a time
    for i, case in enumerate(hog_cases()):
        if ctx.mine(len(cases) + i):
            f, nt = run_hog_case(case, 2.5)
            ctx.record((repr(case), 'hog'), nt, labels=['family=hog'], case=case, failures=f)


def replay(case):
    fam = case.get('family')
    if fam not in RUN:
        return None            # not a case this check generates: cannot be replayed
    try:
        if fam == 'server':
            if case.get('auth') not in (None, 'login', 'plain'):
                return None            # not a case this check generates: cannot be replayed
            script = AUTH_SCRIPTS[case['auth']] if case.get('auth') else SERVER_SCRIPT
            case = dict(case, after=max(0, min(len(script) - 1, int(case['after']))))
            if case.get('mode') not in ('silent', 'midline', 'trickle', 'pipelined-partial'):
                return None            # not a case this check generates: cannot be replayed
        elif fam == 'hog':
            if case.get('side') not in ('server', 'client') or (case['side'] == 'server' and case.get('line') not in ('arg', 'mail', 'tab')):
                return None            # not a case this check generates: cannot be replayed
            return run_hog_case(dict(case, n=max(1, min(100000, int(case.get('n', 40000))))), 2.5)[0]
        elif fam == 'client':
            if case.get('stage') not in CLIENT_STAGES or case.get('kind') not in ('smtp', 'lmtp') or case.get('mode') not in ('silent', 'trickle'):
                return None            # not a case this check generates: cannot be replayed
            case = dict(case, nrcpt=max(1, min(2, int(case.get('nrcpt', 1)))), pipelining=bool(case.get('pipelining')))
            if case.get('reject') not in (None, 'mail', 'rcpt', 'eod', 'eod-mixed'):
                return None            # not a case this check generates: cannot be replayed
        elif fam == 'http' and case.get('mode') not in ('silent', 'trickle', 'trickle-headers'):
            return None            # not a case this check generates: cannot be replayed
        elif fam == 'server-pp':
            if case.get('version') not in ('v1', 'v2', 'auto') or case.get('mode') not in ('silent', 'partial'):
                return None            # not a case this check generates: cannot be replayed
        elif fam == 'server-noread':
            if case.get('what') not in ('noop', 'ehlo', 'bad'):
                return None            # not a case this check generates: cannot be replayed
        elif fam == 'server-tls':
            if case.get('how') not in ('immediate', 'starttls') or case.get('mode') not in ('silent', 'partial'):
                return None            # not a case this check generates: cannot be replayed
        elif fam == 'https':
            if case.get('mode') not in ('handshake', 'response'):
                return None            # not a case this check generates: cannot be replayed
        elif fam == 'http-reuse':
            if case.get('first') not in ('ok', 'error') or case.get('mode') not in ('silent', 'trickle'):
                return None            # not a case this check generates: cannot be replayed
        elif fam == 'client-idle':
            if case.get('kind') not in ('smtp', 'lmtp') or not isinstance(case.get('partial'), str) or case['partial'].endswith('\n'):
                return None            # not a case this check generates: cannot be replayed
        return RUN[fam](case, 5.0)[0]
    except (KeyError, ValueError, TypeError):
        return None            # not a case this check generates: cannot be replayed
