"""C13 - failed mail yields exactly one bounce per failure reply to the sender, and bounces never loop."""
from vf import qm, qmgen
from vf.props import c03

ID = 'C13'
LEVEL = 'exploration'
RULE = ('queue machine (see C03) with failure-heavy relay outcomes (whole-message permanent, per-recipient permanents with equal '
        'or different replies, retry exhaustion with grouped transient replies, failing bounces), 8-bit bodies, bounce factory in '
        '{default, headers-only, returns None}, bounce queue in {self, separate}; the model computes the expected multiset of '
        'bounces. non-trivial = a bounce was expected and (>=2 distinct failure replies, or exhaustion, or a failing bounce); '
        'distinct = distinct (config, actions)')
ASSUMPTIONS = c03.ASSUMPTIONS + ['bounces are observed at the bounce factory and at bounce_queue.enqueue / storage write']

OWN = {'C13'}
WEIGHTS = {'enqueue': 3, 'release': 14, 'tick': 4, 'advance': 1, 'flush': 1, 'serve': 8}


def nontrivial(labels, stats, cfg, acts):
    return 'bounce' in labels and ('mixed-outcome' in labels or 'exhausted' in labels)


def run_shard(ctx):
    bks = c03.backends(ctx)
    strat = qmgen.history(qmgen.configs(bks, pools=True, bounce=True), WEIGHTS, fail_heavy=True, bodies=True)
    qmgen.drive_histories(ctx, OWN, strat, ctx.n(4000, 40000), nontrivial)
    qmgen.drive_histories(ctx, OWN, qmgen.exhausted_dup_history(), ctx.n(200, 400), nontrivial, salt=18)
    # the real SMTP / LMTP relays in front of a scripted peer: every recipient rejected, each with its own 5xx reply
    from vf import relaykinds
    k = 0
    for kind in ('smtp', 'lmtp'):
        for n in (2, 3):
            for verdicts in (['rcpt5'] * n, ['rcpt5'] * (n - 1) + ['ok'], ['ok'] + ['rcpt5'] * (n - 1)):
                k += 1
                if not ctx.mine(k):
                    continue
                for no8bit in (False, True):
                    case = {'family': 'relay-kinds', 'kind': kind, 'nrcpt': n, 'sender': True, 'backoff': [], 'no8bit': no8bit,
                            'rounds': [dict(('r%d' % i, v) for i, v in enumerate(verdicts))]}
                    fails = [(s_, m) for s_, m in relaykinds.run_case(case) if s_.startswith('C13')]
                    ctx.record(repr(case), True, labels=['relay-kinds', 'kind=' + kind], case=case, failures=fails)


def replay(case):
    if case.get('family') == 'relay-kinds':
        from vf import relaykinds
        try:
            case = dict(case, nrcpt=max(1, min(3, int(case['nrcpt']))), backoff=[float(x) for x in case.get('backoff', [])][:4],
                        rounds=[r for r in case.get('rounds', []) if isinstance(r, dict)])
            if case.get('kind') not in ('smtp', 'lmtp'):
                return []
            return [(s_, m) for s_, m in relaykinds.run_case(case) if s_.startswith('C13')]
        except (KeyError, ValueError, TypeError):
            return []
    fails, _, _ = qm.run_history(case['cfg'], case.get('actions', []), OWN)
    return fails
