"""C13 - failed mail yields exactly one bounce per failure reply to the sender, and bounces never loop."""
from vf import qm, qmgen
from vf.props import c03

ID = 'C13'
LEVEL = 'exploration'
RULE = ('queue machine (see C03) with failure-heavy relay outcomes (whole-message permanent, per-recipient permanents with equal '
        'or different replies, retry exhaustion with grouped transient replies, failing bounces), 8-bit bodies, bounce factory in '
        '{default, headers-only, returns None}, bounce queue in {self, separate}; the model computes the expected multiset of '
        'bounces. non-trivial = a bounce was expected and (>=2 distinct failure replies, or exhaustion, or a failing bounce); '
        'distinct = distinct (config, actions)')
ASSUMPTIONS = c03.ASSUMPTIONS + ['bounces are observed at the bounce factory and at bounce_queue.enqueue / storage write']

OWN = {'C13'}
WEIGHTS = {'enqueue': 3, 'release': 14, 'tick': 4, 'advance': 1, 'flush': 1, 'serve': 8}


def nontrivial(labels, stats, cfg, acts):
    return 'bounce' in labels and ('mixed-outcome' in labels or 'exhausted' in labels)


def run_shard(ctx):
    bks = c03.backends(ctx)
    strat = qmgen.history(qmgen.configs(bks, pools=True, bounce=True), WEIGHTS, fail_heavy=True, bodies=True)
    qmgen.drive_histories(ctx, OWN, strat, ctx.n(4000, 40000), nontrivial)


def replay(case):
    fails, _, _ = qm.run_history(case['cfg'], case.get('actions', []), OWN)
    return fails
