"""C04 - a crash at any point never loses an acknowledged message (disk queue).

Crash points are enumerated, not sampled: recording proxies on the file-system
effects of slimta.diskstorage (mkstemp, every aio_write chunk, os.rename,
os.remove) snapshot the directories *before* every effect and after the last
one.  Each snapshot is a possible post-crash disk state (kill between two
effects; nothing is unwound).
"""
import os
import re
import shutil
import tempfile

import gevent
from hypothesis import strategies as st

from vf import hyp
from vf import qm              # virtual clock seams for the resumed queue (slimta.queue.time / Event)

import slimta.diskstorage as sds
from slimta.diskstorage import DiskStorage, AioFile
from slimta.envelope import Envelope
from slimta.queue import Queue
from slimta.relay import Relay, TransientRelayError
from slimta.smtp.reply import Reply

ID = 'C04'
LEVEL = 'fault_enumeration'
RULE = ('Hypothesis histories of storage operations as the Queue issues them (write, increment_attempts, set_timestamp, '
        'set_recipients_delivered, remove; optionally an I/O error (ENOSPC) or a complete load() before the k-th rename / temp-file creation / unlink / chunk write of the next operation) over 1..4 messages with bodies of 1..4 chunks (chunk size 64), tmp_dir separate from or '
        'equal to env_dir; for every history EVERY crash point is taken: a snapshot before each file-system effect (temp-file '
        'creation, each chunk write, rename, unlink) and after the last. Each snapshot is recovered by a fresh DiskStorage and a '
        'fresh Queue whose first attempt of every message fails transiently (backoff 0), so the retry - the first metadata write after the crash - is part of the recovery. One case = one (history, crash point). non-trivial = crash inside an operation on one message while another '
        'acknowledged message is live; distinct = distinct (history, crash index)')
ASSUMPTIONS = ['POSIX rename/unlink atomicity; process death, not power loss (no fsync model)',
               'operations on one storage are sequential at the crash, except that the start-up scan (load) of a restarted queue may run, to completion, at any file-system effect of another operation (other overlaps are judged by C15)',
               'delivered marks are passed as lists of indexes into the recipient list get() currently returns (several rounds per message)']


class Recorder(object):
    def __init__(self):
        self.active = False
        self.dirs = None
        self.snaps = []        # (snapshot path, op index, effect name)
        self.op_index = -1
        self.root = None
        self.hook = None       # optional callable(effect): lets another check run something at every file-system effect

    def snap(self, effect):
        if self.hook is not None:
            self.hook(effect)
        if not self.active:
            return
        dst = tempfile.mkdtemp(prefix='snap_', dir=self.root)
        for name, d in self.dirs.items():
            shutil.copytree(d, os.path.join(dst, name))
        self.snaps.append((dst, self.op_index, effect))


REC = Recorder()


class OsProxy(object):
    def __init__(self, real):
        self._real = real

    def rename(self, a, b):
        REC.snap('rename')
        return self._real.rename(a, b)

    def remove(self, p):
        REC.snap('unlink')
        return self._real.remove(p)

    def unlink(self, p):
        REC.snap('unlink')
        return self._real.unlink(p)

    def open(self, path, flags, *a, **kw):
        # a scratch file created without tempfile.mkstemp is a file-system effect like any other
        if flags & self._real.O_CREAT:
            REC.snap('open-create')
        return self._real.open(path, flags, *a, **kw)

    def __getattr__(self, name):
        return getattr(self._real, name)


_real_mkstemp = getattr(sds, 'mkstemp', None) or tempfile.mkstemp
_real_aio_write = sds.aio_write


def _mkstemp(*a, **kw):
    REC.snap('mkstemp')
    return _real_mkstemp(*a, **kw)


def _aio_write(fd, piece, offset, callback):
    REC.snap('chunk-write')
    return _real_aio_write(fd, piece, offset, callback)


sds.os = OsProxy(os)
if hasattr(sds, 'mkstemp'):
    sds.mkstemp = _mkstemp
sds.aio_write = _aio_write


class RecRelay(Relay):
    def __init__(self):
        super(RecRelay, self).__init__()
        self.calls = []
        self.fail_first = False

    def attempt(self, envelope, attempts):
        tag = str(envelope.headers['X-Tag'])
        self.calls.append((tag, list(envelope.recipients), attempts))
        if self.fail_first and len([c for c in self.calls if c[0] == tag]) == 1:
            # the first attempt after the restart fails for now: the queue has to write the metadata of a message
            # whose last operation was cut short by the crash
            raise TransientRelayError('try again', Reply('450', '4.0.0 try again'))
        return None


def make_env(k, nrcpt, chunks, sender, pad=0):
    rcpts = ['r%d.%d@example.com' % (k, i) for i in range(nrcpt)]
    env = Envelope('s%d@example.com' % k if sender else '', rcpts)
    # (pad: the stored file is read back in chunks of 64 bytes - its size takes every residue, also none)
    body = (b'%d:' % k + b'x' * 61 + b'\n') * chunks + b'p' * pad
    env.parse(b'X-Tag: t%d\r\nSubject: s\r\n\r\n' % k + body)
    env.receiver = 'r'
    env.timestamp = 1.0
    return env


def run_history(ops, same_tmp):
    """-> (failures, number of crash points, number of non-trivial crash points)"""
    AioFile.chunk_size = 64
    root = tempfile.mkdtemp(prefix='vfc04_')
    out = []
    try:
        dirs = {'env': os.path.join(root, 'live', 'env'), 'meta': os.path.join(root, 'live', 'meta')}
        for d in dirs.values():
            os.makedirs(d)
        if same_tmp:
            tmpd = dirs['env']
        else:
            tmpd = os.path.join(root, 'live', 'tmp')
            os.makedirs(tmpd)
            dirs['tmp'] = tmpd
        store = DiskStorage(dirs['env'], dirs['meta'], tmpd)
        REC.dirs = dirs
        REC.snaps = []
        REC.root = os.path.join(root, 'snaps')
        os.makedirs(REC.root)
        # model: per tag the sequence of states; states[i] = state after op i completed (None = absent / removed)
        msgs = {}           # tag -> dict(id, env spec..., state)
        history = []        # per op: (tag, before_state, after_state)   state = dict(ts, attempts, delivered) | None
        order = []
        REC.active = True
        scan_at = [None]

        def arm_scan():
            # the start-up scan of a (re)started queue overlaps the operation: a complete load() runs at its k-th effect
            if scan_at[0] is None:
                return
            (name_, k_), n_ = scan_at[0], [0]
            scan_at[0] = None

            def hook(effect):
                if name_ not in ('any', effect):
                    return
                n_[0] += 1
                if n_[0] == k_ + 1:
                    REC.hook = None
                    try:
                        list(store.load())
                    except Exception as e:
                        out.append(('C04:overlapped-scan-raises:%s' % type(e).__name__, 'load() overlapping op#%d %r raised %r' % (i, op, e)))
            REC.hook = hook
        ioerr_at = [None]
        injected = [False]

        def arm_ioerr():
            # the operation meets an I/O error (e.g. ENOSPC) before its k-th effect of the given kind; the process lives on
            if ioerr_at[0] is None:
                return
            (name_, k_), n_ = ioerr_at[0], [0]
            ioerr_at[0] = None

            def hook(effect):
                if name_ not in ('any', effect):
                    return
                n_[0] += 1
                if n_[0] == k_ + 1:
                    REC.hook = None
                    injected[0] = True
                    raise OSError(28, 'No space left on device (injected)')
            REC.hook = hook
        for i, op in enumerate(ops):
            REC.op_index = i
            REC.hook = None
            injected[0] = False
            kind = op[0]
            if kind == 'ioerr':
                ioerr_at[0] = (op[1], int(op[2]))
                scan_at[0] = None
                history.append(None)
                continue
            if kind == 'scan':
                scan_at[0] = (op[1], int(op[2]))       # before the k-th effect of that kind ('any': k-th effect) of the next operation
                history.append(None)
                continue
            if ioerr_at[0] is not None:
                arm_ioerr()
            else:
                arm_scan()
            if kind == 'write':
                k = len(order)
                if k >= 4:
                    history.append(None)
                    continue
                env = make_env(k, op[1], op[2], op[3], int(op[5]) % 64 if len(op) > 5 else 0)
                tag = 't%d' % k
                flat = env.flatten()
                ts = float(op[4])
                m = {'tag': tag, 'sender': env.sender, 'flat': flat, 'rcpts': list(env.recipients), 'state': None, 'id': None}
                msgs[tag] = m
                order.append(tag)
                before = None
                try:
                    m['id'] = store.write(env, ts)
                except OSError:
                    if not injected[0]:
                        raise
                    history.append(None)        # never acknowledged: whatever it left behind must not disturb the others
                    continue
                m['state'] = {'ts': ts, 'attempts': 0, 'delivered': []}
                history.append((tag, before, dict(m['state'])))
                continue
            live = [t for t in order if msgs[t]['state'] is not None]
            if not live:
                history.append(None)
                continue
            m = msgs[live[op[1] % len(live)]]
            before = dict(m['state'])
            failed = False

            def guarded(fn, *a):
                try:
                    fn(*a)
                    return True
                except Exception as e:
                    if isinstance(e, OSError) and injected[0]:
                        return False
                    # the storage itself is broken for the running process (e.g. a meta file destroyed by an earlier failed write)
                    out.append(('C04:operation-raises:%s' % type(e).__name__,
                                'op#%d %r on %s raised %r (history %r)' % (i, op, m['tag'], e, ops[:i + 1])))
                    return False
            if kind == 'incr':
                if guarded(store.increment_attempts, m['id']):
                    m['state'] = dict(before, attempts=before['attempts'] + 1)
            elif kind == 'ts':
                if guarded(store.set_timestamp, m['id'], float(op[2])):
                    m['state'] = dict(before, ts=float(op[2]))
            elif kind == 'deliver':
                # a marking round: indexes are relative to the recipient list as get() currently returns it
                outstanding = [k_ for k_ in range(len(m['rcpts'])) if k_ not in before['delivered']]
                if len(outstanding) < 2:
                    history.append(None)
                    continue
                rel = sorted(set(x % len(outstanding) for x in op[2]))
                if len(rel) >= len(outstanding):
                    rel = rel[:-1]
                if not rel:
                    history.append(None)
                    continue
                if guarded(store.set_recipients_delivered, m['id'], list(rel)):
                    m['state'] = dict(before, delivered=sorted(before['delivered'] + [outstanding[r] for r in rel]))
            elif kind == 'remove':
                guarded(store.remove, m['id'])          # a removal that failed half-way counts as started: presence is optional
                m['state'] = None
            history.append((m['tag'], before, None if m['state'] is None else dict(m['state'])))
            if out:
                break
        REC.hook = None
        REC.op_index = len(ops)
        REC.snap('end')
        REC.active = False
        if out:
            return out, len(REC.snaps), 0
        # judge every crash point
        ncrash = 0
        nnt = 0
        for path, opi, effect in REC.snaps:
            ncrash += 1
            # expected state of each message at this crash point
            expect = {}
            for tag in order:
                st_pre = None
                for j, h in enumerate(history):
                    if h is None or h[0] != tag:
                        continue
                    if j < opi:
                        st_pre = h[2]
                    elif j == opi:
                        expect[tag] = (h[1], h[2], True)     # in flight: either side
                        break
                else:
                    expect[tag] = (st_pre, st_pre, False)
            inflight = [t for t, e in expect.items() if e[2]]
            others_live = [t for t, e in expect.items() if not e[2] and e[0] is not None]
            if inflight and others_live:
                nnt += 1
            f = judge_snapshot(path, same_tmp, msgs, expect, 'op#%d(%s) before %s' % (opi, ops[opi][0] if opi < len(ops) else 'end', effect))
            if f:
                out.extend(f)
                break
        return out, ncrash, nnt
    finally:
        REC.active = False
        REC.hook = None
        shutil.rmtree(root, ignore_errors=True)


def judge_snapshot(path, same_tmp, msgs, expect, where):
    env_dir = os.path.join(path, 'env')
    meta_dir = os.path.join(path, 'meta')
    tmp_dir = env_dir if same_tmp else os.path.join(path, 'tmp')
    store = DiskStorage(env_dir, meta_dir, tmp_dir)
    try:
        loaded = dict((i, t) for t, i in store.load())
    except Exception as e:
        return [('C04:load-raises:%s' % type(e).__name__, '%s: load() of a fresh DiskStorage raised %r' % (where, e))]
    must = {}
    for tag, (a, b, inflight) in expect.items():
        m = msgs[tag]
        options = [s for s in (a, b) if s is not None]
        if a is None or b is None:
            # never acknowledged yet, or removal started: presence is optional
            if m['id'] is not None and m['id'] in loaded and options:
                pass
            continue
        id = m['id']
        if id not in loaded:
            return [('C04:acknowledged-message-not-loaded', '%s: message %s (%s) is missing from load(): %r'
                     % (where, tag, id, sorted(loaded)))]
        if loaded[id] not in [s['ts'] for s in options]:
            return [('C04:timestamp', '%s: message %s loaded with timestamp %r, expected one of %r'
                     % (where, tag, loaded[id], [s['ts'] for s in options]))]
        try:
            env, attempts = store.get(id)
        except Exception as e:
            return [('C04:get-raises:%s' % type(e).__name__, '%s: get(%s) raised %r' % (where, tag, e))]
        if env.sender != m['sender'] or env.flatten() != m['flat']:
            return [('C04:content', '%s: message %s came back with different sender/content' % (where, tag))]
        ok = False
        for s in options:
            rc = [r for k, r in enumerate(m['rcpts']) if k not in s['delivered']]
            if list(env.recipients) == rc and attempts == s['attempts']:
                ok = True
        # metadata is one atomic file: the combination must be one of the two sides
        if not ok:
            return [('C04:recipients-or-attempts', '%s: message %s came back with recipients %r attempts %r, expected %r'
                     % (where, tag, env.recipients, attempts,
                        [([r for k, r in enumerate(m['rcpts']) if k not in s['delivered']], s['attempts']) for s in options]))]
        must[tag] = (list(env.recipients), attempts)
    # a fresh queue resumes retrying every such message
    qm.CLOCK.now = 10.0 ** 10
    qm.CLOCK.timers = []
    relay = RecRelay()
    relay.fail_first = True
    queue = Queue(DiskStorage(env_dir, meta_dir, tmp_dir), relay, backoff=lambda envelope, attempts: 0)
    queue.start()
    try:
        for _ in range(400):
            gevent.idle()
            if all(len([c for c in relay.calls if c[0] == t]) >= 2 for t in must):
                break
            gevent.sleep(0.001)
    finally:
        queue.kill()
        for g in qm.GSHIM.spawned:
            if not g.dead:
                g.kill(block=False)
        qm.GSHIM.spawned = []
    for tag, (rc, attempts) in must.items():
        calls = [c for c in relay.calls if c[0] == tag]
        if not calls:
            return [('C04:not-resumed', '%s: a fresh Queue over the crashed directory never attempted message %s (attempts made: %r)'
                     % (where, tag, relay.calls))]
        if calls[0][1] != rc or calls[0][2] != attempts:
            return [('C04:resumed-with-wrong-state', '%s: message %s re-attempted with %r, storage said %r'
                     % (where, tag, calls[0][1:], (rc, attempts)))]
        if len(calls) < 2:
            return [('C04:not-retried-after-restart', '%s: the first attempt of message %s after the restart failed transiently '
                     '(backoff 0) and the fresh Queue never attempted it again (attempts made: %r)' % (where, tag, relay.calls))]
        if calls[1][1] != rc or calls[1][2] != attempts + 1:
            return [('C04:retried-with-wrong-state', '%s: message %s retried with %r, expected %r'
                     % (where, tag, calls[1][1:], (rc, attempts + 1)))]
    return []


# =====================================================================================
# queue level: the real Queue drives the storage; every file-system effect is a crash point
# =====================================================================================

RETRY_LIMIT = 2          # the backoff grants two retries, the third transient failure is final

_NAMED = re.compile(br'Delivery failed for:\r\n- (.*?)\r\n\r\n', re.S)


class QRelay(Relay):
    def __init__(self, scripts, log):
        super(QRelay, self).__init__()
        self.scripts = scripts          # tag -> list of outcomes
        self.log = log                  # StateLog
        self.n = {}

    def attempt(self, envelope, attempts):
        from slimta.relay import PermanentRelayError, TransientRelayError
        from slimta.smtp.reply import Reply
        tag = str(envelope.headers['X-Tag'] or '')
        if tag not in self.scripts:
            return None                 # a bounce: delivered
        k = self.n.get(tag, 0)
        self.n[tag] = k + 1
        script = self.scripts[tag]
        outcome = script[k] if k < len(script) else ['ok']
        rcpts = list(envelope.recipients)
        final = attempts + 1 > RETRY_LIMIT
        if outcome[0] == 'ok':
            self.log.update(tag, delivered=rcpts)
            return None
        if outcome[0] == 'perm':
            self.log.update(tag, failed=rcpts)
            raise PermanentRelayError('no', Reply('550', '5.1.1 rejected %s' % tag))
        if outcome[0] == 'temp':
            if final:
                self.log.update(tag, failed=rcpts)
            raise TransientRelayError('later', Reply('450', '4.2.0 later %s' % tag))
        kinds = [outcome[1][i % len(outcome[1])] for i in range(len(rcpts))]
        res = {}
        deliv, failed = [], []
        for r, kd in zip(rcpts, kinds):
            if kd == 'ok':
                res[r] = None
                deliv.append(r)
            elif kd == 'perm':
                res[r] = PermanentRelayError('no', Reply('550', '5.1.1 rejected %s' % tag))
                failed.append(r)
            else:
                res[r] = TransientRelayError('later', Reply('450', '4.2.0 later %s' % tag))
                if final:
                    failed.append(r)
        self.log.update(tag, delivered=deliv, failed=failed)
        return res


class StateLog(object):
    """What the outside world has been told so far (enqueue acknowledged, relay verdicts); a new entry per change."""

    def __init__(self):
        self.states = [{}]

    def update(self, tag, acked=None, delivered=(), failed=()):
        cur = dict((t, dict(v, delivered=set(v['delivered']), failed=set(v['failed']))) for t, v in self.states[-1].items())
        m = cur.setdefault(tag, {'acked': False, 'delivered': set(), 'failed': set()})
        if acked:
            m['acked'] = True
        m['delivered'] |= set(delivered)
        m['failed'] |= set(failed)
        self.states.append(cur)
        REC.op_index = len(self.states) - 1


def run_queue_history(spec):
    """spec: {'msgs': [{'n':, 'sender':, 'script': [...]}, ...], 'same_tmp': bool} -> (failures, crash points, non-trivial ones)"""
    AioFile.chunk_size = 256
    root = tempfile.mkdtemp(prefix='vfc04q_')
    out = []
    same_tmp = bool(spec.get('same_tmp'))
    try:
        dirs = {'env': os.path.join(root, 'live', 'env'), 'meta': os.path.join(root, 'live', 'meta')}
        for d in dirs.values():
            os.makedirs(d)
        if same_tmp:
            tmpd = dirs['env']
        else:
            tmpd = os.path.join(root, 'live', 'tmp')
            os.makedirs(tmpd)
            dirs['tmp'] = tmpd
        store = DiskStorage(dirs['env'], dirs['meta'], tmpd)
        REC.dirs = dirs
        REC.snaps = []
        REC.root = os.path.join(root, 'snaps')
        os.makedirs(REC.root)
        log = StateLog()
        REC.op_index = 0
        msgs = {}
        scripts = {}
        for k, ms in enumerate(spec['msgs'][:3]):
            tag = 't%d' % k
            env = make_env(k, max(1, min(3, int(ms.get('n', 1)))), 1, bool(ms.get('sender', True)))
            msgs[tag] = {'env': env, 'sender': env.sender, 'rcpts': list(env.recipients)}
            scripts[tag] = [o for o in ms.get('script', [])][:6]
        qm.CLOCK.now = 5000.0
        qm.CLOCK.timers = []
        relay = QRelay(scripts, log)
        queue = Queue(store, relay, backoff=lambda envelope, attempts: 0 if attempts <= RETRY_LIMIT else None)
        queue.start()
        REC.active = True
        try:
            for tag in sorted(msgs):
                queue.enqueue(msgs[tag]['env'])
                log.update(tag, acked=True)
            quiet = 0
            for _ in range(3000):
                gevent.idle()
                gevent.sleep(0.001)
                if not os.listdir(dirs['env']) and not os.listdir(tmpd if not same_tmp else dirs['meta']):
                    quiet += 1
                    if quiet >= 5:
                        break
                else:
                    quiet = 0
            REC.snap('end')
        finally:
            REC.active = False
            queue.kill()
            for g in qm.GSHIM.spawned:
                if not g.dead:
                    g.kill(block=False)
            qm.GSHIM.spawned = []
        nnt = 0
        for path, si, effect in REC.snaps:
            state = log.states[min(si, len(log.states) - 1)]
            if any(v['failed'] for v in state.values()):
                nnt += 1
            f = judge_queue_snapshot(path, same_tmp, msgs, state, 'state#%d before %s' % (si, effect), spec)
            # keep looking at the other crash points: one clause failing here must not hide another one later
            for sig, msg in f:
                if sig not in [s_ for s_, _ in out]:
                    out.append((sig, msg))
        return out, len(REC.snaps), nnt
    finally:
        REC.active = False
        REC.hook = None
        shutil.rmtree(root, ignore_errors=True)


def judge_queue_snapshot(path, same_tmp, msgs, state, where, spec):
    env_dir = os.path.join(path, 'env')
    meta_dir = os.path.join(path, 'meta')
    tmp_dir = env_dir if same_tmp else os.path.join(path, 'tmp')
    store = DiskStorage(env_dir, meta_dir, tmp_dir)
    stored = {}          # tag -> recipients still held by the stored original
    bounced = {}         # tag -> set of recipients named in stored bounces
    try:
        ids = [i for _, i in store.load()]
    except Exception as e:
        return [('C04:load-raises:%s' % type(e).__name__, '%s: load() of a fresh DiskStorage raised %r' % (where, e))]
    for i in ids:
        try:
            env, _ = store.get(i)
        except Exception:
            continue
        tag = str(env.headers['X-Tag'] or '')
        if tag in msgs:
            stored[tag] = list(env.recipients)
            continue
        h, b = env.flatten()
        m = re.search(br'X-Tag: (t\d+)', b)
        n = _NAMED.search(b)
        if env.sender == '' and m and n:
            bounced.setdefault(m.group(1).decode(), set()).update(x.decode() for x in n.group(1).split(b'\r\n- '))
    for tag, st_ in sorted(state.items()):
        if not st_['acked']:
            continue
        m = msgs[tag]
        for r in m['rcpts']:
            if r in st_['delivered']:
                continue
            held = r in stored.get(tag, [])
            if r in st_['failed']:
                if not m['sender'] or held or r in bounced.get(tag, set()):
                    continue
                return [('C04:failed-recipient-neither-stored-nor-bounced',
                         '%s: %s of %s failed for good (sender %s) but a crash here leaves neither the message nor a bounce for it on '
                         'disk (stored originals %r, bounces %r); history %r' % (where, r, tag, m['sender'], stored, bounced, spec))]
            if not held:
                return [('C04:outstanding-recipient-lost:queue-level',
                         '%s: %s of acknowledged message %s is neither delivered nor failed, but a crash here leaves it out of '
                         'storage (stored originals %r); history %r' % (where, r, tag, stored, spec))]
    return []


_outcome_q = st.one_of(st.just(['ok']), st.just(['perm']), st.just(['temp']), st.just(['temp']),
                       st.tuples(st.just('map'), st.lists(st.sampled_from(['ok', 'perm', 'temp']), min_size=1, max_size=3)).map(list))
_qcase = st.fixed_dictionaries({
    'msgs': st.lists(st.fixed_dictionaries({'n': st.integers(1, 3), 'sender': st.sampled_from([True, True, True, False]),
                                            'script': st.lists(_outcome_q, max_size=4)}), min_size=1, max_size=2),
    'same_tmp': st.booleans()})


_w = st.tuples(st.just('write'), st.integers(1, 4), st.integers(1, 4), st.booleans(),
               st.sampled_from([5.0, 1000.5, 0.0]), st.integers(0, 63)).map(list)
_op = st.one_of(
    _w,
    st.tuples(st.just('incr'), st.integers(0, 3)).map(list),
    st.tuples(st.just('ts'), st.integers(0, 3), st.sampled_from([7.25, 2000.0, 1.0])).map(list),
    st.tuples(st.just('deliver'), st.integers(0, 3), st.lists(st.integers(0, 3), min_size=1, max_size=2)).map(list),
    st.tuples(st.just('remove'), st.integers(0, 3)).map(list),
    st.tuples(st.just('scan'), st.sampled_from(['rename', 'rename', 'mkstemp', 'unlink', 'chunk-write', 'any']), st.integers(0, 2)).map(list),
    st.tuples(st.just('ioerr'), st.sampled_from(['rename', 'mkstemp', 'unlink', 'chunk-write', 'chunk-write', 'any']), st.integers(0, 2)).map(list),
)
_case = st.tuples(st.tuples(_w, st.lists(_op, max_size=11)).map(lambda t: [t[0]] + t[1]), st.booleans())


@st.composite
def _case_rounds(draw):
    """Several partial-delivery rounds on the same message (indexes relative to what get() returns at that time)."""
    ops = [['write', draw(st.integers(3, 4)), draw(st.integers(1, 2)), True, 5.0]]
    if draw(st.booleans()):
        ops.append(['write', draw(st.integers(1, 4)), 1, True, 7.0])
    for _ in range(draw(st.integers(2, 3))):
        ops.append(['deliver', 0, draw(st.lists(st.integers(0, 3), min_size=1, max_size=2))])
        ops.append(draw(st.sampled_from([['incr', 0], ['ts', 0, 2000.0], ['incr', 1], ['scan', 'rename', 0]])))
    return ops, draw(st.booleans())


def run_shard(ctx):
    def one(v):
        ops, same_tmp = v
        fails, ncrash, nnt = run_history(ops, same_tmp)
        # one evaluation per crash point
        for k in range(max(0, ncrash - 1)):
            ctx.record((repr(v), k), k < nnt, labels=['crash-point'])
        ctx.record((repr(v), 'last'), nnt > 0, labels=['history', 'tmp=env' if same_tmp else 'tmp-separate'],
                   case=lambda: {'ops': ops, 'same_tmp': same_tmp, 'crash_points': ncrash}, failures=fails)
    hyp.drive(ctx, _case, one, ctx.n(240, 5000))
    hyp.drive(ctx, _case_rounds(), one, ctx.n(96, 2000), salt=2)
    # every size of the stored file modulo the read chunk (64 bytes here): written, updated, read back
    for pad in range(64):
        if ctx.mine(pad):
            one(([['write', 1, 1, True, 5.0, pad], ['incr', 0]], bool(pad % 2)))

    def qone(spec):
        fails, ncrash, nnt = run_queue_history(spec)
        for k in range(max(0, ncrash - 1)):
            ctx.record((repr(spec), k), k < nnt, labels=['queue-level-crash-point'])
        ctx.record((repr(spec), 'last'), nnt > 0, labels=['queue-level-history'], case=lambda: {'queue_level': spec}, failures=fails)
    hyp.drive(ctx, _qcase, qone, ctx.n(160, 3000), salt=1)


def replay(case):
    if 'queue_level' in case:
        spec = case['queue_level']
        try:
            msgs = []
            for ms in spec.get('msgs', [])[:3]:
                script = []
                for o in ms.get('script', []):
                    if isinstance(o, list) and o and o[0] in ('ok', 'perm', 'temp'):
                        script.append([o[0]])
                    elif isinstance(o, list) and len(o) == 2 and o[0] == 'map' and o[1] and all(x in ('ok', 'perm', 'temp') for x in o[1]):
                        script.append(['map', list(o[1])])
                msgs.append({'n': int(ms.get('n', 1)), 'sender': bool(ms.get('sender', True)), 'script': script})
        except Exception:
            return []
        if not msgs:
            return []
        return run_queue_history({'msgs': msgs, 'same_tmp': bool(spec.get('same_tmp'))})[0]
    ops = []
    for o in case.get('ops', []):
        try:
            if o[0] == 'write':
                ops.append(['write', max(1, min(4, int(o[1]))), max(1, min(4, int(o[2]))), bool(o[3]), float(o[4])] +
                           ([int(o[5]) % 64] if len(o) > 5 else []))
            elif o[0] in ('incr', 'remove'):
                ops.append([o[0], int(o[1])])
            elif o[0] in ('scan', 'ioerr'):
                if o[1] in ('rename', 'mkstemp', 'unlink', 'chunk-write', 'any'):
                    ops.append([o[0], o[1], max(0, int(o[2]))])
            elif o[0] == 'ts':
                ops.append(['ts', int(o[1]), float(o[2])])
            elif o[0] == 'deliver':
                ops.append(['deliver', int(o[1]), [int(x) for x in o[2]]])
        except Exception:
            continue
    if not ops or ops[0][0] != 'write':
        return []
    fails, _, _ = run_history(ops, bool(case.get('same_tmp')))
    return fails
