"""C18 - PROXY protocol headers are parsed exactly and never over-read.

Differential against a strict reference parser written from the HAProxy
specification; the socket returns generated short reads from recv_into().
"""
import re
import socket
import struct
import ipaddress

import gevent
from hypothesis import strategies as st

from vf import hyp
from vf.runner import hexb, unhex

from slimta.edge import EdgeServer
from slimta.util.proxyproto import ProxyProtocol, ProxyProtocolV1, ProxyProtocolV2

ID = 'C18'
LEVEL = 'exploration'
RULE = ('valid v1/v2 headers from a builder (boundary addresses/ports, TLV bytes) + 0..32 payload bytes, read '
        'through generated short-read patterns by all three mix-ins; with a command timeout on the edge, the session after a well-formed / malformed / truncated header runs undisturbed; corruptions: every single-byte substitution '
        'and every truncation of sampled headers, length-field edits, random garbage. non-trivial = a short read '
        'splits the header, or payload follows, or the header is corrupted; distinct = distinct (bytes, read sizes, mix-in)')
ASSUMPTIONS = ['inputs the spec rejects but int()/inet_pton leniency admits (+80, 0080, 8_0, unassigned v2 nibbles) are gray',
               'recv_into never returns more than requested']

V2SIG = b'\r\n\r\n\x00\r\nQUIT\n'


class ShortSocket(object):
    """recv_into returns at most sizes[i] bytes on the i-th call (cyclic)."""

    def __init__(self, data, sizes):
        self.data = data
        self.sizes = list(sizes) or [1 << 20]
        self.pos = 0
        self.calls = 0

    def recv_into(self, buf, nbytes=0, flags=0):
        want = nbytes or len(buf)
        k = min(want, max(1, self.sizes[self.calls % len(self.sizes)]), len(self.data) - self.pos)
        self.calls += 1
        buf[:k] = self.data[self.pos:self.pos + k]
        self.pos += k
        return k

    def recv(self, n, flags=0):
        b = bytearray(n)
        k = self.recv_into(b, n)
        return bytes(b[:k])

    def close(self):
        pass

    def getpeername(self):
        return ('10.9.8.7', 999)

    def fileno(self):
        return -1


class ResetSocket(ShortSocket):
    """The connection is reset by the peer after `limit` bytes have been read."""

    def __init__(self, data, sizes, limit):
        super(ResetSocket, self).__init__(data[:limit], sizes)
        self.limit = limit

    def recv_into(self, buf, nbytes=0, flags=0):
        if self.pos >= len(self.data):
            raise ConnectionResetError(104, 'Connection reset by peer')
        return super(ResetSocket, self).recv_into(buf, nbytes, flags)


class YieldSocket(ShortSocket):
    """ShortSocket whose every read is a switch point (as a real socket read is under gevent)."""

    def __init__(self, data, sizes, yields):
        super(YieldSocket, self).__init__(data, sizes)
        self.yields = list(yields) or [1]

    def recv_into(self, buf, nbytes=0, flags=0):
        for _ in range(self.yields[self.calls % len(self.yields)]):
            gevent.sleep(0)
        return super(YieldSocket, self).recv_into(buf, nbytes, flags)


class _Base(EdgeServer):
    def __init__(self):
        super(_Base, self).__init__(None, None, hostname='h')
        self.calls = []
        self.by_sock = {}

    def handle(self, sock, addr):
        self.calls.append((addr, sock.pos))
        self.by_sock.setdefault(id(sock), []).append((addr, sock.pos))
        if getattr(self, 'nap', 0):
            # the session that follows the header outlives the time allowed for the header
            gevent.sleep(self.nap)
            self.finished = True


class V1Edge(ProxyProtocolV1, _Base):
    pass


class V2Edge(ProxyProtocolV2, _Base):
    pass


class AutoEdge(ProxyProtocol, _Base):
    pass


EDGES = {'v1': V1Edge, 'v2': V2Edge, 'auto': AutoEdge}

# -- builders -------------------------------------------------------------------


def build_v1(fam, src=None, dst=None, sport=0, dport=0, unknown_tail=b''):
    if fam == 'UNKNOWN':
        return b'PROXY UNKNOWN' + unknown_tail + b'\r\n'
    return ('PROXY %s %s %s %d %d\r\n' % (fam, src, dst, sport, dport)).encode('ascii')


def build_v2(cmd, fam, proto, src=None, dst=None, sport=0, dport=0, tlv=b''):
    b12 = 0x20 | cmd
    famn = {'UNSPEC': 0, 'INET': 1, 'INET6': 2, 'UNIX': 3}[fam]
    b13 = (famn << 4) | proto
    if fam == 'INET':
        addr = socket.inet_pton(socket.AF_INET, src) + socket.inet_pton(socket.AF_INET, dst) + \
            struct.pack('!HH', sport, dport)
    elif fam == 'INET6':
        addr = socket.inet_pton(socket.AF_INET6, src) + socket.inet_pton(socket.AF_INET6, dst) + \
            struct.pack('!HH', sport, dport)
    elif fam == 'UNIX':
        addr = src.ljust(108, b'\x00') + dst.ljust(108, b'\x00')
    else:
        addr = b''
    body = addr + tlv
    return V2SIG + bytes([b12, b13]) + struct.pack('!H', len(body)) + body


# -- reference parser -----------------------------------------------------------

_OCTET = r'(?:25[0-5]|2[0-4]\d|1\d\d|[1-9]\d|\d)'
_V4 = re.compile(r'^%s\.%s\.%s\.%s\Z' % ((_OCTET,) * 4))
_PORT = re.compile(r'^(?:0|[1-9]\d{0,4})\Z')


def _ref_ip(fam, raw):
    """-> ('ok', canonical) | ('bad',) | ('gray',)"""
    try:
        text = raw.decode('ascii')
    except UnicodeDecodeError:
        return ('bad',)
    if fam == 'TCP4':
        if _V4.match(text):
            return ('ok', text)
        try:
            socket.inet_pton(socket.AF_INET, text)
            return ('gray',)
        except (OSError, ValueError):
            return ('bad',)
    try:
        if '%' in text or '/' in text:
            raise ValueError(text)
        packed = ipaddress.IPv6Address(text).packed
    except ValueError:
        try:
            socket.inet_pton(socket.AF_INET6, text)
            return ('gray',)
        except (OSError, ValueError):
            return ('bad',)
    try:
        socket.inet_pton(socket.AF_INET6, text)
    except (OSError, ValueError):
        return ('gray',)      # python's ipaddress is laxer than inet_pton here
    return ('ok', socket.inet_ntop(socket.AF_INET6, packed))


def _ref_port(raw):
    try:
        text = raw.decode('ascii')
    except UnicodeDecodeError:
        return ('bad',)
    if _PORT.match(text):
        v = int(text)
        return ('ok', v) if v <= 65535 else ('bad',)
    if re.match(r'^\d+\Z', text, re.A) and int(text) <= 65535:
        return ('gray',)          # leading zeros: the specification does not say
    # anything but decimal digits (sign, underscore, surrounding whitespace - all accepted by int()) is malformed
    return ('bad',)


def ref_v1(data):
    """-> (verdict, src, dst, consumed_or_bound)"""
    idx = data.find(b'\r\n', 0, 107)
    if idx == -1 or idx + 2 > 107:
        return ('malformed', None, None, 107)
    line = data[:idx + 2]
    if not line.startswith(b'PROXY '):
        return ('malformed', None, None, 107)
    body = line[6:-2]
    parts = body.split(b' ')
    if parts[0] == b'UNKNOWN':
        return ('valid', (None, None), (None, None), len(line))
    if parts[0] not in (b'TCP4', b'TCP6') or len(parts) != 5:
        return ('malformed', None, None, 107)
    fam = parts[0].decode()
    rs = [_ref_ip(fam, parts[1]), _ref_ip(fam, parts[2]), _ref_port(parts[3]), _ref_port(parts[4])]
    if any(r[0] == 'bad' for r in rs):
        return ('malformed', None, None, 107)
    if any(r[0] == 'gray' for r in rs):
        return ('gray', None, None, 107)
    return ('valid', (rs[0][1], rs[2][1]), (rs[1][1], rs[3][1]), len(line))


def ref_v2(data):
    if len(data) < 16:
        return ('malformed', None, None, 16)
    if data[:12] != V2SIG or data[12] & 0xf0 != 0x20:
        return ('malformed', None, None, 16)
    n = struct.unpack('!H', data[14:16])[0]
    bound = 16 + n
    if len(data) < bound:
        return ('malformed', None, None, bound)
    cmd = data[12] & 0x0f
    fam = data[13] >> 4
    proto = data[13] & 0x0f
    need = {0: 0, 1: 12, 2: 36, 3: 216}.get(fam)
    addr = data[16:bound]
    if cmd == 0:
        # LOCAL: the receiver uses the real endpoints and ignores family, transport and the address block
        return ('local', None, None, bound)
    if cmd != 1:
        return ('malformed', None, None, bound)       # unassigned command: receivers must reject it
    if data[13] not in (0x00, 0x11, 0x12, 0x21, 0x22, 0x31, 0x32):
        return ('malformed', None, None, bound)       # unspecified family / transport combination: must be rejected
    if n < need:
        return ('malformed', None, None, bound)
    if fam == 0:
        return ('valid', (None, None), (None, None), bound)
    if fam == 1:
        return ('valid', (socket.inet_ntop(socket.AF_INET, addr[0:4]), struct.unpack('!H', addr[8:10])[0]),
                (socket.inet_ntop(socket.AF_INET, addr[4:8]), struct.unpack('!H', addr[10:12])[0]), bound)
    if fam == 2:
        return ('valid', (socket.inet_ntop(socket.AF_INET6, addr[0:16]), struct.unpack('!H', addr[32:34])[0]),
                (socket.inet_ntop(socket.AF_INET6, addr[16:32]), struct.unpack('!H', addr[34:36])[0]), bound)
    return ('valid', addr[0:108].rstrip(b'\x00'), addr[108:216].rstrip(b'\x00'), bound)


def ref(data, mode):
    if mode == 'v1':
        return ref_v1(data)
    if mode == 'v2':
        return ref_v2(data)
    if data[:6] == b'PROXY ' and len(data) >= 8:
        return ref_v1(data)
    if data[:8] == V2SIG[:8]:
        return ref_v2(data)
    if len(data) < 8 and (b'PROXY '.startswith(data[:6]) or V2SIG.startswith(data)):
        return ('malformed', None, None, 16)
    return ('malformed', None, None, 107)


# -- oracle ---------------------------------------------------------------------

def judge(data, sizes, mode):
    verdict, src, dst, n = ref(data, mode)
    out = []
    tag = '%s:%s' % (mode, verdict)
    # 1. the wrapped handler, through handle()
    edge = EDGES[mode]()
    sock = ShortSocket(data, sizes)
    try:
        edge.handle(sock, ('orig', 1))
    except BaseException as e:
        return [('C18:exception-escapes-handle:%s:%s' % (mode, type(e).__name__),
                 '%r sizes=%r: %r' % (data[:80], sizes[:8], e))]
    if verdict == 'valid':
        if len(edge.calls) != 1:
            out.append(('C18:valid-header-dropped:' + mode, '%r' % data[:80]))
        else:
            addr, pos = edge.calls[0]
            if addr != src:
                out.append(('C18:wrong-source:' + mode, '%r -> %r expected %r' % (data[:80], addr, src)))
            if pos != n:
                out.append(('C18:consumption:' + mode,
                            '%r sizes=%r: consumed %d, header is %d' % (data[:80], sizes[:8], pos, n)))
    elif verdict == 'local':
        if edge.calls:
            out.append(('C18:local-not-dropped:' + mode, '%r' % data[:80]))
        if sock.pos > n:
            out.append(('C18:over-read:' + tag, '%r consumed %d bound %d' % (data[:80], sock.pos, n)))
    else:
        if verdict == 'malformed':
            if len(edge.calls) != 1 or edge.calls[0][0] != (None, None):
                out.append(('C18:malformed-accepted:' + mode, '%r -> %r' % (data[:80], edge.calls)))
        if sock.pos > n:
            out.append(('C18:over-read:' + tag, '%r consumed %d bound %d' % (data[:80], sock.pos, n)))
    # 2. the public class methods return source and destination
    if verdict == 'valid' and mode != 'auto':
        sock = ShortSocket(data, sizes)
        try:
            if mode == 'v1':
                got = ProxyProtocolV1.process_pp_v1(sock, b'')
            else:
                got = ProxyProtocolV2.process_pp_v2(sock, b'')
            if tuple(got) != (src, dst):
                out.append(('C18:wrong-addresses:' + mode, '%r -> %r expected %r' % (data[:80], got, (src, dst))))
        except BaseException as e:
            out.append(('C18:process-exception:%s:%s' % (mode, type(e).__name__), '%r: %r' % (data[:80], e)))
    return out


# -- generators -----------------------------------------------------------------

_v4 = st.one_of(st.sampled_from(['0.0.0.0', '255.255.255.255', '127.0.0.1', '1.2.3.4', '10.0.0.255', '192.168.100.200']),
                st.tuples(*[st.integers(0, 255)] * 4).map(lambda t: '%d.%d.%d.%d' % t))
_v6 = st.one_of(st.sampled_from(['::', '::1', 'ffff:ffff:ffff:ffff:ffff:ffff:ffff:ffff', '2001:db8::1',
                                 '1111:2222:3333:4444:5555:6666:7777:8888', '::ffff:1.2.3.4', 'fe80::']),
                st.binary(min_size=16, max_size=16).map(lambda b: socket.inet_ntop(socket.AF_INET6, b)),
                st.binary(min_size=16, max_size=16).map(lambda b: ipaddress.IPv6Address(b).exploded))
_port = st.one_of(st.sampled_from([0, 1, 25, 65535, 65534, 1024, 9999, 10000]), st.integers(0, 65535))
_path = st.one_of(st.sampled_from([b'', b'/tmp/s', b'x' * 108, b'/a\x00b']), st.binary(max_size=108))


@st.composite
def valid_header(draw):
    kind = draw(st.sampled_from(['v1-4', 'v1-6', 'v1-u', 'v2-4', 'v2-6', 'v2-unix', 'v2-unspec', 'v2-local']))
    if kind == 'v1-4':
        return 'v1', build_v1('TCP4', draw(_v4), draw(_v4), draw(_port), draw(_port))
    if kind == 'v1-6':
        return 'v1', build_v1('TCP6', draw(_v6), draw(_v6), draw(_port), draw(_port))
    if kind == 'v1-u':
        tail = draw(st.sampled_from([b'', b' ', b' x y', b' ::1 ::1 1 2', b' ' + b'z' * 80]))
        return 'v1', build_v1('UNKNOWN', unknown_tail=tail)
    tlv = draw(st.one_of(st.just(b''), st.binary(max_size=64)))
    if kind == 'v2-4':
        return 'v2', build_v2(1, 'INET', draw(st.sampled_from([1, 2])), draw(_v4), draw(_v4), draw(_port), draw(_port), tlv)
    if kind == 'v2-6':
        return 'v2', build_v2(1, 'INET6', draw(st.sampled_from([1, 2])), draw(_v6), draw(_v6), draw(_port), draw(_port), tlv)
    if kind == 'v2-unix':
        return 'v2', build_v2(1, 'UNIX', draw(st.sampled_from([1, 2])), draw(_path), draw(_path), tlv=tlv)
    if kind == 'v2-unspec':
        return 'v2', build_v2(1, 'UNSPEC', 0, tlv=tlv)
    fam = draw(st.sampled_from(['UNSPEC', 'INET', 'INET6', 'UNIX']))
    if fam == 'UNSPEC':
        return 'v2', build_v2(0, 'UNSPEC', 0, tlv=tlv)
    if fam == 'UNIX':
        return 'v2', build_v2(0, 'UNIX', 1, b'', b'', tlv=tlv)
    a = draw(_v4) if fam == 'INET' else draw(_v6)
    return 'v2', build_v2(0, fam, 1, a, a, 1, 2, tlv)


_sizes = st.one_of(st.just([1 << 20]), st.just([1]), st.lists(st.integers(1, 9), min_size=1, max_size=12),
                   st.lists(st.sampled_from([1, 2, 3, 7, 8, 15, 16, 200]), min_size=1, max_size=6))
_payload = st.one_of(st.just(b''), st.sampled_from([b'EHLO x\r\n', b'\r\n', b'PROXY ', V2SIG]), st.binary(max_size=32))


@st.composite
def valid_case(draw):
    ver, hdr = draw(valid_header())
    mode = draw(st.sampled_from([ver, 'auto']))
    return hdr + draw(_payload), draw(_sizes), mode, len(hdr)


@st.composite
def corrupt_case(draw):
    ver, hdr = draw(valid_header())
    data = bytearray(hdr + draw(_payload))
    how = draw(st.sampled_from(['subst', 'subst', 'trunc', 'length', 'insert', 'delete', 'garbage', 'wrongmode']))
    mode = draw(st.sampled_from([ver, 'auto']))
    if how == 'subst':
        for _ in range(draw(st.integers(1, 2))):
            i = draw(st.integers(0, len(hdr) - 1))
            data[i] = draw(st.one_of(st.integers(0, 255), st.sampled_from([0, 10, 13, 32, 43, 45, 48, 57, 95, 255])))
    elif how == 'trunc':
        del data[draw(st.integers(0, len(hdr) - 1)):]
    elif how == 'length' and ver == 'v2':
        data[14:16] = struct.pack('!H', draw(st.one_of(st.integers(0, 300), st.sampled_from([0, 11, 12, 35, 36, 215, 216, 65535]))))
    elif how == 'insert':
        i = draw(st.integers(0, len(hdr)))
        data[i:i] = draw(st.sampled_from([b' ', b'\r', b'\n', b'\r\n', b'0', b'+', b'\x00', b'_', b'\t', b':']))
    elif how == 'delete':
        i = draw(st.integers(0, len(hdr) - 1))
        del data[i:i + draw(st.integers(1, 3))]
    elif how == 'garbage':
        data = bytearray(draw(st.binary(max_size=140)))
    elif how == 'wrongmode':
        mode = 'v2' if ver == 'v1' else 'v1'
    return bytes(data), draw(_sizes), mode, how


def judge_reset(data, sizes, mode, limit):
    """A header truncated by a connection reset: like any truncated header it must not make an exception escape handle()."""
    edge = EDGES[mode]()
    sock = ResetSocket(data, sizes, limit)
    try:
        edge.handle(sock, ('orig', 1))
    except BaseException as e:
        return [('C18:exception-escapes-handle:%s:%s:reset' % (mode, type(e).__name__),
                 '%r reset after %d bytes, sizes=%r: %r' % (data[:60], limit, sizes[:6], e))]
    for addr, pos in edge.calls:
        if addr != (None, None) and limit < ref(data, mode)[3]:
            return [('C18:truncated-header-accepted:' + mode, '%r reset after %d bytes -> %r' % (data[:60], limit, addr))]
    return []


def judge_concurrent(conns, mode):
    """conns: list of (data, sizes, yields). Several connections are handled by one edge at the same time; every read is a switch
    point. Each connection must get exactly the result it gets when handled alone."""
    alone = []
    for data, sizes, _ in conns:
        edge = EDGES[mode]()
        sock = ShortSocket(data, sizes)
        try:
            edge.handle(sock, ('orig', 1))
            alone.append((list(edge.calls), sock.pos, None))
        except BaseException as e:
            alone.append((None, None, type(e).__name__))
    edge = EDGES[mode]()
    socks = [YieldSocket(d, sz, y) for d, sz, y in conns]
    errs = [None] * len(conns)

    def run(k):
        try:
            edge.handle(socks[k], ('orig', 1))
        except BaseException as e:
            errs[k] = type(e).__name__
    gs = [gevent.spawn(run, k) for k in range(len(conns))]
    gevent.joinall(gs, timeout=10)
    out = []
    for k, (data, sizes, y) in enumerate(conns):
        if not gs[k].dead:
            gs[k].kill(block=False)
            out.append(('C18:concurrent-handle-hangs:' + mode, '%r' % data[:60]))
            continue
        got = (edge.by_sock.get(id(socks[k]), []), socks[k].pos, errs[k])
        if alone[k][2] is None and got != alone[k]:
            out.append(('C18:concurrent-connections-interfere:' + mode,
                        'connection %d %r sizes=%r: alone -> %r, next to %d other connection(s) -> %r'
                        % (k, data[:60], sizes[:6], alone[k], len(conns) - 1, got)))
            break
    return out


def case_json(data, sizes, mode):
    return {'data': hexb(data), 'sizes': list(sizes)[:16], 'mode': mode}


def run_valid(ctx, n):
    def one(v):
        data, sizes, mode, hlen = v
        f = judge(data, sizes, mode)
        split = sizes != [1 << 20]
        ctx.record((data, tuple(sizes), mode), split or len(data) > hlen,
                   labels=['valid', mode, 'short-reads' if split else 'one-read'],
                   case=lambda: case_json(data, sizes, mode), failures=f)
    hyp.drive(ctx, valid_case(), one, n)


def run_corrupt(ctx, n):
    def one(v):
        data, sizes, mode, how = v
        f = judge(data, sizes, mode)
        ctx.record((data, tuple(sizes), mode), True,
                   labels=['corrupt', 'how=' + how, 'ref=' + ref(data, mode)[0]],
                   case=lambda: case_json(data, sizes, mode), failures=f)
    hyp.drive(ctx, corrupt_case(), one, n, salt=1)


SAMPLE_HEADERS = [
    ('v1', build_v1('TCP4', '192.168.0.1', '10.0.0.255', 56324, 25)),
    ('v1', build_v1('TCP6', '2001:db8::1', '::1', 65535, 0)),
    ('v1', build_v1('UNKNOWN')),
    ('v1', build_v1('TCP4', '0.0.0.0', '255.255.255.255', 0, 65535)),
    ('v2', build_v2(1, 'INET', 1, '1.2.3.4', '5.6.7.8', 1000, 25)),
    ('v2', build_v2(1, 'INET6', 1, '::1', '2001:db8::2', 1, 65535, b'\x03\x00\x01\x41')),
    ('v2', build_v2(0, 'UNSPEC', 0)),
    ('v2', build_v2(1, 'UNSPEC', 0, tlv=b'abc')),
]


def run_substitutions(ctx):
    """Every single-byte substitution and every truncation of the sample headers."""
    index = 0
    for ver, hdr in SAMPLE_HEADERS:
        payload = b'MAIL FROM:<a>\r\n'
        for mode in (ver, 'auto'):
            for i in range(len(hdr)):
                for v in range(256):
                    index += 1
                    if not ctx.mine(index) or v == hdr[i]:
                        continue
                    data = hdr[:i] + bytes([v]) + hdr[i + 1:] + payload
                    sizes = [1 << 20] if v % 2 else [1 + (v + i) % 5, 2]
                    f = judge(data, sizes, mode)
                    ctx.record((data, mode), True, labels=['single-byte-substitution'],
                               case=lambda: case_json(data, sizes, mode), failures=f)
            for i in range(len(hdr)):
                index += 1
                if not ctx.mine(index):
                    continue
                data = hdr[:i]
                f = judge(data, [3], mode)
                ctx.record((data, mode, 't'), True, labels=['truncation'],
                           case=lambda: case_json(data, [3], mode), failures=f)


@st.composite
def concurrent_case(draw):
    mode = draw(st.sampled_from(['auto', 'auto', 'v1', 'v2']))
    conns = []
    for _ in range(draw(st.integers(2, 3))):
        if draw(st.integers(0, 3)) == 0:
            data, sizes, _, _ = draw(corrupt_case())
        else:
            data, sizes, _, _ = draw(valid_case())
        if sizes == [1 << 20] and draw(st.booleans()):
            sizes = draw(st.lists(st.integers(1, 9), min_size=1, max_size=4))
        conns.append((data, sizes, draw(st.lists(st.integers(0, 2), min_size=1, max_size=4))))
    return conns, mode


def run_concurrent(ctx, n):
    def one(v):
        conns, mode = v
        f = judge_concurrent(conns, mode)
        ctx.record((tuple((d, tuple(sz), tuple(y)) for d, sz, y in conns), mode), any(sz != [1 << 20] for _, sz, _ in conns),
                   labels=['concurrent', mode], case=lambda: {'concurrent': [[hexb(d), list(sz)[:16], list(y)] for d, sz, y in conns],
                                                            'mode': mode}, failures=f)
    hyp.drive(ctx, concurrent_case(), one, n, salt=2)


def run_resets(ctx):
    index = 0
    for ver, hdr in SAMPLE_HEADERS:
        for mode in (ver, 'auto'):
            for limit in range(0, len(hdr)):
                for sizes in ([1 << 20], [3], [1]):
                    index += 1
                    if not ctx.mine(index):
                        continue
                    f = judge_reset(hdr, sizes, mode, limit)
                    ctx.record(('reset', hdr, mode, limit, tuple(sizes)), limit > 0, labels=['reset'],
                               case=lambda: {'reset': limit, 'data': hexb(hdr), 'sizes': sizes, 'mode': mode}, failures=f)


def judge_session_after_header(data, sizes, mode):
    """The edge has a command timeout (it bounds the header read). Whatever the header was - well-formed, malformed,
    truncated - the wrapped session runs undisturbed afterwards: nothing armed for the header is left to fire inside it."""
    edge = EDGES[mode]()
    edge.command_timeout = 0.02
    edge.nap = 0.08
    edge.finished = False
    sock = ShortSocket(data, sizes)
    try:
        edge.handle(sock, ('orig', 1))
        gevent.sleep(0.03)        # ... nor after the session returned (the timer would hit whatever this greenlet does next)
    except BaseException as e:
        return [('C18:exception-escapes-handle:%s:%s:after-header' % (mode, type(e).__name__),
                 '%r sizes=%r command_timeout=0.02, session of 0.08 s: %r' % (data[:80], sizes[:8], e))]
    if edge.calls and not edge.finished:
        return [('C18:session-cut-short:' + mode, '%r' % data[:80])]
    return []


def run_sessions(ctx):
    index = 0
    for ver, hdr in SAMPLE_HEADERS:
        variants = [hdr + b'payload', hdr[:len(hdr) // 2], b'GET / HTTP/1.0\r\n\r\n' + b'x' * 120,
                    hdr[:7] + b'\xff' + hdr[8:] + b'payload', b'']
        for mode in (ver, 'auto'):
            for data in variants:
                for sizes in ([1 << 20], [3]):
                    index += 1
                    if not ctx.mine(index):
                        continue
                    f = judge_session_after_header(data, sizes, mode)
                    ctx.record(('session', data, mode, tuple(sizes)), True, labels=['session-after-header', ref(data, mode)[0]],
                               case=lambda: {'session': True, 'data': hexb(data), 'sizes': sizes, 'mode': mode}, failures=f)


def run_shard(ctx):
    run_sessions(ctx)
    if ctx.thorough:
        from vf import fuzz
        fuzz.run(ctx, ID, 90, FUZZ_SEEDS)
    run_resets(ctx)
    run_concurrent(ctx, ctx.n(4000, 80000))
    run_substitutions(ctx)
    run_valid(ctx, ctx.n(30000, 1000000))
    run_corrupt(ctx, ctx.n(30000, 1500000))


def replay(case):
    sizes = [int(s) for s in case.get('sizes', [])] or [1 << 20]
    mode = case.get('mode')
    if mode not in EDGES:
        return []
    if case.get('session'):
        return judge_session_after_header(unhex(case['data']), sizes, mode)
    if 'reset' in case:
        return judge_reset(unhex(case['data']), sizes, mode, max(0, int(case['reset'])))
    if 'concurrent' in case:
        conns = [(unhex(c[0]), [max(1, int(x)) for x in c[1]] or [1 << 20], [max(0, min(3, int(x))) for x in c[2]] or [1])
                 for c in case['concurrent'] if isinstance(c, list) and len(c) == 3]
        if len(conns) < 2:
            return []
        return judge_concurrent(conns, mode)
    return judge(unhex(case['data']), sizes, mode)


# -- coverage-guided tier (atheris) ---------------------------------------------------------------------

def fuzz_target(data):
    if len(data) < 3:
        return None, []
    mode = ('v1', 'v2', 'auto')[data[0] % 3]
    nsizes = data[1] % 5
    sizes = [max(1, s % 20) for s in data[2:2 + nsizes]] or [1 << 20]
    payload = data[2 + nsizes:]
    return case_json(payload, sizes, mode), judge(payload, sizes, mode)


FUZZ_SEEDS = [b'\x00\x00' + h for _, h in SAMPLE_HEADERS] + [b'\x02\x02\x03\x01' + h + b'EHLO' for _, h in SAMPLE_HEADERS]
