"""C15 - every queue storage backend behaves like the same simple store."""
import os
import shutil
import tempfile

import gevent
from hypothesis import strategies as st

from vf import hyp
from vf import backends

from slimta.envelope import Envelope
from slimta.queue.dict import DictStorage

ID = 'C15'
LEVEL = 'exploration'
RULE = ('Hypothesis operation sequences (write, get, load, increment_attempts, set_timestamp, set_recipients_delivered with a '
        'list or a set - one marking round per message -, remove, get/load after remove, and overlapped pairs of operations on '
        'different ids run in two greenlets) over 1..5 messages, applied to each real backend (dict, dict over a shelve-like copying mapping, disk/pyaio, redis via the '
        'real redis-py client and an in-process RESP server, cloud object store with and without message queue) and to a '
        'reference dict store; every return value is compared after every step. non-trivial = >=2 live messages and a mutation '
        'of one between reads of the other; distinct = distinct (backend, operations)')
ASSUMPTIONS = ['fake redis server / in-memory object store fidelity (cloud store mirrors cloudstorage/aws.py semantics)',
               'the exception type raised by get() after remove() is gray (KeyError vs OSError)',
               'one delivered-marking round per message (multi-round marking is judged end to end by C03)']

BACKENDS = ['dict', 'shelf', 'disk', 'redis', 'cloud', 'cloud-mq']


class Holder(object):
    pass


class Sut(object):
    def __init__(self, backend):
        self.backend = backend
        self.holder = Holder()
        self.tmp = None
        if backend == 'dict':
            self.store = DictStorage()
        elif backend == 'disk':
            from slimta.diskstorage import DiskStorage, AioFile
            AioFile.chunk_size = 64
            self.tmp = tempfile.mkdtemp(prefix='vfc15_')
            for d in ('env', 'meta', 'tmp'):
                os.mkdir(os.path.join(self.tmp, d))
            self.store = DiskStorage(os.path.join(self.tmp, 'env'), os.path.join(self.tmp, 'meta'),
                                     os.path.join(self.tmp, 'tmp'))
        else:
            self.store = backends.make(backend, self.holder)

    def close(self):
        closer = getattr(self.store, 'verif_close', None)
        if closer:
            closer()
        if self.tmp:
            shutil.rmtree(self.tmp, ignore_errors=True)


def make_env(spec, n):
    rcpts = ['r%d.%d@example.com' % (n, i) for i in range(max(1, min(5, int(spec.get('n', 1)))))]
    dup = int(spec.get('dup', 0) or 0)
    if dup and len(rcpts) > 1:
        # the same address at two positions (the Queue allows it; delivery is recorded per position)
        j = dup % len(rcpts)
        rcpts[j] = rcpts[(j + 1 + dup // len(rcpts)) % len(rcpts)]
    env = Envelope('sender%d@example.com' % n if spec.get('sender', True) else '', rcpts)
    body = bytes.fromhex(spec.get('body', '')) if spec.get('body') else b'body %d\r\n' % n
    env.parse(b'Subject: message %d\r\nX-N: %d\r\n\r\n' % (n, n) + body)
    env.receiver = 'here'
    env.timestamp = 1.0
    return env


def run_ops(backend, ops):
    sut = Sut(backend)
    try:
        return _run(sut, backend, ops)
    finally:
        sut.close()


def _run(sut, backend, ops):
    store = sut.store
    model = {}           # id -> dict
    order = []           # ids in write order (also removed ones)
    out = []
    nontrivial = False
    last_read = None
    mutated_other = False
    tag = backend

    def fail(clause, msg):
        out.append(('C15:%s:%s' % (clause, tag), msg))

    def live():
        return [i for i in order if i in model]

    def pick(sel, pool):
        return pool[sel % len(pool)] if pool else None

    def do(op, forced=None):
        """Apply one primitive operation to the real store and the model; returns a thunk result comparison."""
        kind = op[0]
        if kind == 'write':
            n = len(order)
            env = make_env(op[1], n)
            ts = float(op[2])
            want = env.flatten()
            id = store.write(env, ts)
            if not isinstance(id, str) or id in order:
                fail('write-id', 'write returned %r (ids so far %r)' % (id, order))
                return
            order.append(id)
            model[id] = {'sender': env.sender, 'flat': want, 'rcpts': list(env.recipients), 'delivered': set(),
                         'attempts': 0, 'ts': ts, 'marked': False}
        elif kind == 'get':
            id = forced or pick(op[1], live())
            if id is None:
                return
            m = model[id]
            env, attempts = store.get(id)
            rc = [r for k, r in enumerate(m['rcpts']) if k not in m['delivered']]
            if env.sender != m['sender'] or env.flatten() != m['flat']:
                fail('get-content', 'get(%s): sender/content differ from what was written' % id)
            if list(env.recipients) != rc:
                fail('get-recipients', 'get(%s): recipients %r, expected %r (delivered %r)'
                     % (id, env.recipients, rc, sorted(m['delivered'])))
            if attempts != m['attempts']:
                fail('get-attempts', 'get(%s): attempts %r, expected %r' % (id, attempts, m['attempts']))
        elif kind == 'load':
            got = sorted((float(t), i) if isinstance(i, str) else (float(t), repr(i)) for t, i in store.load())
            want = sorted((model[i]['ts'], i) for i in live())
            if got != want:
                fail('load', 'load() = %r, expected %r' % (got, want))
        elif kind == 'incr':
            id = forced or pick(op[1], live())
            if id is None:
                return
            r = store.increment_attempts(id)
            model[id]['attempts'] += 1
            if r != model[id]['attempts']:
                fail('increment', 'increment_attempts(%s) returned %r, expected %r' % (id, r, model[id]['attempts']))
        elif kind == 'ts':
            id = forced or pick(op[1], live())
            if id is None:
                return
            store.set_timestamp(id, float(op[2]))
            model[id]['ts'] = float(op[2])
        elif kind == 'deliver':
            cands = [i for i in live() if not model[i]['marked']]
            id = forced or pick(op[1], cands)
            if id is None:
                return
            m = model[id]
            idx = sorted(set(k % len(m['rcpts']) for k in op[2]))
            if not idx:
                return
            arg = set(idx) if op[3] else list(idx)
            store.set_recipients_delivered(id, arg)
            m['delivered'] |= set(idx)
            m['marked'] = True
        elif kind == 'remove':
            id = forced or pick(op[1], live())
            if id is None:
                return
            store.remove(id)
            del model[id]
        elif kind == 'get_removed':
            gone = [i for i in order if i not in model]
            id = pick(op[1], gone)
            if id is None:
                return
            try:
                env, _ = store.get(id)
            except Exception:
                return
            fail('removed-message-readable', 'get(%s) after remove returned an envelope' % id)

    for op in ops:
        if out:
            break
        try:
            if op[0] == 'pair_load':
                # load() overlapped with a mutation of one message: messages live throughout must be listed
                b = op[1]
                l = live()
                if not l or b[0] not in ('remove', 'ts', 'incr', 'write'):
                    continue
                before = dict((i, model[i]['ts']) for i in l)
                got = []

                def loader():
                    got.extend((float(t), i) for t, i in store.load())
                g1 = gevent.spawn(loader)
                g2 = gevent.spawn(do, b)
                gevent.joinall([g1, g2])
                for g in (g1, g2):
                    if g.exception is not None:
                        raise g.exception
                after = dict((i, model[i]['ts']) for i in live())
                must = [i for i in before if i in after]
                got_ids = [i for _, i in got]
                for i in must:
                    if i not in got_ids:
                        fail('overlapped-load-misses-live-message', 'load() overlapped with %r did not list %s (listed %r)'
                             % (b, i, got_ids))
                        break
                for t, i in got:
                    if i not in before and i not in after:
                        fail('overlapped-load-lists-unknown', 'load() listed %r' % (i,))
                    elif i in must and t not in (before.get(i), after.get(i)):
                        fail('overlapped-load-timestamp', 'load() listed %s with %r' % (i, t))
                nontrivial = nontrivial or len(l) >= 2
                continue
            if op[0] == 'interleave':
                # disk only: a complete load()/get() runs at the k-th file-system effect *inside* a mutation
                if backend != 'disk':
                    continue
                from vf.props import c04
                a, (ename, k), b = op[1], (op[2][0], int(op[2][1])), op[3]
                l = live()
                if a[0] != 'write' and not l:
                    continue
                ida = None if a[0] == 'write' else pick(a[1], l)
                if a[0] == 'deliver' and model[ida]['marked']:
                    continue
                idb = pick(b[1], l) if b[0] == 'get' and l else None
                if b[0] == 'get' and idb is None:
                    continue
                before = dict((i, dict(model[i], delivered=set(model[i]['delivered']))) for i in l)
                st_ = {'n': 0, 'ran': False, 'err': None, 'got': None}

                def hook(effect):
                    if ename not in ('any', effect):
                        return
                    st_['n'] += 1
                    if st_['n'] == k + 1 and not st_['ran']:
                        st_['ran'] = True
                        c04.REC.hook = None
                        try:
                            if b[0] == 'load':
                                st_['got'] = [(float(t), i) for t, i in store.load()]
                            else:
                                st_['got'] = store.get(idb)
                        except Exception as e:
                            st_['err'] = e
                c04.REC.hook = hook
                try:
                    do(a, ida)
                finally:
                    c04.REC.hook = None
                if not st_['ran']:
                    continue
                nontrivial = nontrivial or len(l) >= 2
                removed = ida if a[0] == 'remove' else None
                if b[0] == 'load':
                    if st_['err'] is not None:
                        fail('exception:interleaved-load:%s' % type(st_['err']).__name__,
                             'load() before effect #%d of %r raised %r' % (k, a, st_['err']))
                        continue
                    got_ids = [i for _, i in st_['got']]
                    for i in l:
                        if i == removed:
                            continue
                        if i not in got_ids:
                            fail('overlapped-load-misses-live-message', 'load() before effect #%d of %r did not list %s '
                                 '(listed %r)' % (k, a, i, got_ids))
                            break
                    for t, i in st_['got']:
                        if i not in before and i not in model:
                            fail('overlapped-load-lists-unknown', 'load() listed %r' % (i,))
                        elif i in before and i in model and t not in (before[i]['ts'], model[i]['ts']):
                            fail('overlapped-load-timestamp', 'load() listed %s with %r' % (i, t))
                else:
                    if idb == removed:
                        continue            # reading the message that is being removed: any outcome
                    if st_['err'] is not None:
                        fail('exception:interleaved-get:%s' % type(st_['err']).__name__,
                             'get(%s) before effect #%d of %r raised %r' % (idb, k, a, st_['err']))
                        continue
                    env, attempts = st_['got']
                    mb, ma = before[idb], model[idb]
                    rcs = [[r for n_, r in enumerate(m_['rcpts']) if n_ not in m_['delivered']] for m_ in (mb, ma)]
                    if env.sender != mb['sender'] or env.flatten() != mb['flat']:
                        fail('get-content', 'get(%s) at effect #%d of %r: sender/content differ' % (idb, k, a))
                    elif list(env.recipients) not in rcs or attempts not in (mb['attempts'], ma['attempts']):
                        fail('get-recipients' if list(env.recipients) not in rcs else 'get-attempts',
                             'get(%s) at effect #%d of %r: recipients %r attempts %r, expected %r / %r'
                             % (idb, k, a, env.recipients, attempts, rcs, (mb['attempts'], ma['attempts'])))
                continue
            if op[0] == 'workers':
                # two workers, each running its own operations one after the other (yielding in between) on its own message
                l = live()
                if len(l) < 2:
                    continue
                ida, idb = l[0], l[1]
                usable = lambda o, i: not (o[0] == 'deliver' and model[i]['marked'])

                def work(ops_, i):
                    for o in ops_:
                        if o[0] == 'deliver' and model[i]['marked']:
                            continue
                        do(o, i)
                        gevent.sleep(0)
                g1 = gevent.spawn(work, op[1], ida)
                g2 = gevent.spawn(work, op[2], idb)
                gevent.joinall([g1, g2], timeout=15)
                if not (g1.dead and g2.dead):
                    g1.kill(block=False)
                    g2.kill(block=False)
                    fail('overlapped-operations-stall', 'two workers on different messages did not finish within 15 s: %r' % (op,))
                    break
                for g in (g1, g2):
                    if g.exception is not None:
                        raise g.exception
                nontrivial = True
                continue
            if op[0] == 'pair_write':
                # a write overlapped with another write or with an operation on an existing message
                a, b = op[1], op[2]
                l = live()
                idb = None
                if b[0] != 'write':
                    idb = pick(b[1], l)
                    if idb is None or (b[0] == 'deliver' and model[idb]['marked']):
                        continue
                g1 = gevent.spawn(do, a)
                g2 = gevent.spawn(do, b, idb)
                gevent.joinall([g1, g2])
                for g in (g1, g2):
                    if g.exception is not None:
                        raise g.exception
                nontrivial = True
                continue
            if op[0] == 'pair':
                # two operations on different ids, overlapped in two greenlets
                a, b = op[1], op[2]
                l = live()
                if len(l) < 2 or a[0] in ('write', 'load') or b[0] in ('write', 'load'):
                    continue
                ida = pick(a[1], l)
                rest = [i for i in l if i != ida]
                idb = pick(b[1], rest)
                a2, b2 = a, b
                if 'remove' in (a[0], b[0]) or (a[0] == 'deliver' and model[ida]['marked']) or \
                        (b[0] == 'deliver' and model[idb]['marked']):
                    continue
                # model effects are applied inside do(); run the real calls concurrently
                g1 = gevent.spawn(do, a2, ida)
                g2 = gevent.spawn(do, b2, idb)
                gevent.joinall([g1, g2])
                for g in (g1, g2):
                    if g.exception is not None:
                        raise g.exception
                nontrivial = True
            else:
                l = live()
                if len(l) >= 2 and op[0] in ('incr', 'ts', 'deliver', 'remove'):
                    mutated_other = True
                if op[0] == 'get' and mutated_other and len(l) >= 2:
                    nontrivial = True
                do(op)
        except Exception as e:
            fail('exception:%s:%s' % (op[0] if op[0] != 'pair' else 'pair', type(e).__name__), '%r: %r' % (op, e))
    if not out:
        # final full scan
        try:
            do(['load'])
            for k in range(len(live())):
                do(['get', k])
        except Exception as e:
            fail('exception:final-scan:%s' % type(e).__name__, repr(e))
    return out, nontrivial


_idx = st.integers(0, 4)
_ts = st.sampled_from([0.0, 1.5, 1000.125, 1234567890.25, 5.0, 5.0])
_wspec = st.fixed_dictionaries({'n': st.integers(1, 5), 'sender': st.booleans(), 'dup': st.sampled_from([0, 0, 0, 1, 2, 3, 4, 7]),
                                'body': st.sampled_from(['', '', 'c3a90d0a', '00ff0a', '2e0d0a' * 30])})
_prim = st.one_of(
    st.tuples(st.just('write'), _wspec, _ts).map(list),
    st.tuples(st.just('get'), _idx).map(list),
    st.tuples(st.just('get'), _idx).map(list),
    st.just(['load']),
    st.tuples(st.just('incr'), _idx).map(list),
    st.tuples(st.just('ts'), _idx, _ts).map(list),
    st.tuples(st.just('deliver'), _idx, st.lists(st.integers(0, 4), min_size=1, max_size=3), st.booleans()).map(list),
    st.tuples(st.just('remove'), _idx).map(list),
    st.tuples(st.just('get_removed'), _idx).map(list),
)
_pairable = st.one_of(
    st.tuples(st.just('get'), _idx).map(list),
    st.tuples(st.just('incr'), _idx).map(list),
    st.tuples(st.just('ts'), _idx, _ts).map(list),
    st.tuples(st.just('deliver'), _idx, st.lists(st.integers(0, 4), min_size=1, max_size=3), st.booleans()).map(list),
)
_mut = st.one_of(st.tuples(st.just('remove'), _idx).map(list), st.tuples(st.just('ts'), _idx, _ts).map(list),
                 st.tuples(st.just('incr'), _idx).map(list), st.tuples(st.just('write'), _wspec, _ts).map(list))
_mut2 = st.one_of(_mut, _mut, st.tuples(st.just('deliver'), _idx, st.lists(st.integers(0, 4), min_size=1, max_size=3), st.booleans()).map(list))
_inter = st.tuples(st.just('interleave'), _mut2,
                   st.tuples(st.sampled_from(['rename', 'rename', 'mkstemp', 'unlink', 'chunk-write', 'any']), st.integers(0, 2)).map(list),
                   st.one_of(st.just(['load']), st.just(['load']), st.tuples(st.just('get'), _idx).map(list))).map(list)
_write = st.tuples(st.just('write'), _wspec, _ts).map(list)
_op = st.one_of(_prim, _prim, _prim, st.tuples(st.just('pair'), _pairable, _pairable).map(list),
                st.tuples(st.just('pair_write'), _write, st.one_of(_write, _write, _pairable)).map(list),
                st.tuples(st.just('workers'), st.lists(_pairable, min_size=2, max_size=4), st.lists(_pairable, min_size=1, max_size=4)).map(list),
                st.tuples(st.just('pair_load'), _mut).map(list), _inter)
_case = st.tuples(st.sampled_from(BACKENDS),
                  st.tuples(st.lists(st.tuples(st.just('write'), _wspec, _ts).map(list), min_size=2, max_size=5),
                            st.lists(_op, max_size=22)).map(lambda t: t[0] + t[1]))


def run_shard(ctx):
    def one(v):
        backend, ops = v
        fails, nt = run_ops(backend, ops)
        ctx.record(repr(v), nt, labels=['backend=' + backend] + (['overlap'] if any(o[0] in ('pair', 'pair_load', 'pair_write', 'workers') for o in ops) else []),
                   case=lambda: {'backend': backend, 'ops': ops}, failures=fails)
    hyp.drive(ctx, _case, one, ctx.n(3000, 40000))


def replay(case):
    if case.get('backend') not in BACKENDS:
        return []
    ops = []
    for o in case.get('ops', []):
        try:
            if not isinstance(o, list) or not o:
                continue
            if o[0] == 'write':
                ops.append(['write', dict(o[1]), float(o[2])])
            elif o[0] in ('get', 'incr', 'remove', 'get_removed'):
                ops.append([o[0], int(o[1])])
            elif o[0] == 'ts':
                ops.append(['ts', int(o[1]), float(o[2])])
            elif o[0] == 'deliver':
                ops.append(['deliver', int(o[1]), [int(x) for x in o[2]], bool(o[3])])
            elif o[0] == 'load':
                ops.append(['load'])
            elif o[0] == 'pair' and len(o) == 3 and o[1] and o[2]:
                ops.append(o)
            elif o[0] == 'pair_load' and len(o) == 2 and o[1]:
                ops.append(o)
            elif o[0] == 'interleave' and len(o) == 4 and o[1] and o[3] and o[1][0] in ('write', 'ts', 'incr', 'remove', 'deliver') \
                    and o[3][0] in ('load', 'get'):
                if isinstance(o[2], list) and len(o[2]) == 2 and o[2][0] in ('rename', 'mkstemp', 'unlink', 'chunk-write', 'any'):
                    ops.append(['interleave', o[1], [o[2][0], max(0, int(o[2][1]))], o[3]])
        except Exception:
            continue
    fails, _ = run_ops(case['backend'], ops)
    return fails
