"""C10 - pipelining client pairs every reply with the command that caused it."""
from hypothesis import strategies as st

from vf import hyp
from vf.transport import WouldBlockForever

from slimta.smtp import BadReply
from slimta.smtp.client import Client, LmtpClient

ID = 'C10'
LEVEL = 'exploration'
RULE = ('Hypothesis draws a valid call sequence on Client / LmtpClient (banner, ehlo|helo|lhlo, 1..3 transactions of mailfrom, '
        'rcptto x 0..4, data, send_data|send_empty_data, rset, custom commands, quit) and a reply script (any code class, 1..3 '
        'lines per reply, PIPELINING advertised or not, reply stream cut by a generated chunk pattern) served by a reactive '
        'in-memory peer; the same mailbox may be named twice in a transaction, a reply may end in a bare code line; a directed family puts one reply with a three-digit non-SMTP code inside a pipelined batch (BadReply at the flush, the caller carries on with RSET and QUIT); a second family runs '
        'two such clients at the same time with their calls interleaved by a generated schedule. non-trivial = pipelined, with >=1 rejected and >=1 accepted command and a multi-line or cut reply; '
        'distinct = distinct (calls, script, chunks)')
ASSUMPTIONS = ['the peer answers each complete command line immediately and in order (a conforming server)',
               'after a DATA command that is not answered 354 the caller issues RSET (as the relay does); a transaction is never abandoned by a second MAIL without DATA or RSET',
               'reply texts carry an explicit enhanced status code matching the code class, so rendering is the identity']


class ReactivePeer(object):
    """In-memory downstream: parses what the client sends and only then owes the scripted replies."""

    def __init__(self, script, chunks, lmtp, emptysep=False):
        self.emptysep = emptysep
        self.script = list(script)      # list of (code, [lines]) consumed in order
        self.slot = 0
        self.chunks = list(chunks) or [4096]
        self.nrecv = 0
        self.lmtp = lmtp
        self.inbuf = b''
        self.outbuf = b''
        self.mode = 'command'
        self.accepted_rcpts = 0
        self.commands = []
        self.served = []                # (slot, command) pairs
        self.data_seen = []
        self.read_past = 0
        self._owe(b'[BANNER]')

    def _render(self, code, lines):
        out = []
        for l in lines[:-1]:
            out.append(('%s-%s\r\n' % (code, l)).encode('utf-8'))
        # a final line without text is sent as the bare code (RFC 5321 4.2: Reply-code [ SP textstring ] CRLF)
        # ... or, like many servers, as the code followed by the separator alone
        if lines[-1] or self.emptysep:
            out.append(('%s %s\r\n' % (code, lines[-1])).encode('utf-8'))
        else:
            out.append(('%s\r\n' % code).encode('ascii'))
        return b''.join(out)

    def _owe(self, command):
        if self.slot >= len(self.script):
            code, lines = '250', ['2.0.0 filler %d' % self.slot]
        else:
            code, lines = self.script[self.slot]
        self.served.append((self.slot, command, code))
        self.slot += 1
        self.outbuf += self._render(code, lines)
        return code

    def sendall(self, data):
        self.inbuf += bytes(data)
        while True:
            if self.mode == 'command':
                i = self.inbuf.find(b'\r\n')
                if i == -1:
                    return
                line, self.inbuf = self.inbuf[:i], self.inbuf[i + 2:]
                self.commands.append(line)
                verb = line.split(b' ')[0].upper()
                code = self._owe(verb)
                if verb == b'DATA' and code == '354':
                    self.mode = 'data'
                elif verb == b'RCPT' and code.startswith('2'):
                    self.accepted_rcpts += 1
                elif verb in (b'MAIL', b'RSET') or (verb in (b'LHLO', b'EHLO', b'HELO') and code == '250'):
                    self.accepted_rcpts = 0
            else:
                if self.inbuf.startswith(b'.\r\n'):
                    end = 0
                    skip = 3
                else:
                    j = self.inbuf.find(b'\r\n.\r\n')
                    if j == -1:
                        return
                    end = j + 2
                    skip = 3
                self.data_seen.append(self.inbuf[:end])
                self.inbuf = self.inbuf[end + skip:]
                self.mode = 'command'
                n = self.accepted_rcpts if self.lmtp else 1
                for _ in range(n):
                    self._owe(b'[SEND_DATA]')
                self.accepted_rcpts = 0

    def recv(self, n=4096, flags=0):
        if not self.outbuf:
            self.read_past += 1
            raise WouldBlockForever()
        k = max(1, min(n, self.chunks[self.nrecv % len(self.chunks)]))
        self.nrecv += 1
        piece, self.outbuf = self.outbuf[:k], self.outbuf[k:]
        return piece

    def getpeername(self):
        return ('peer', 25)

    def fileno(self):
        return -1

    def close(self):
        pass


def esc_for(code):
    return {'2': '2', '4': '4', '5': '5'}.get(code[0])


def run_case(case):
    """case: dict(lmtp, pipelining, calls=[...], script=[(code, [lines])...], chunks=[...]) -> failures, nontrivial"""
    res = []
    for _ in steps(case, res):
        pass
    return res[0]


def run_pair(case_a, case_b, schedule):
    """Two clients alive at the same time (as in a relay pool); their calls are interleaved by `schedule` (0 = a, 1 = b)."""
    ra, rb = [], []
    ga, gb = steps(case_a, ra), steps(case_b, rb)
    live = [ga, gb]
    k = 0
    while live:
        pick = schedule[k % len(schedule)] if schedule else 0
        k += 1
        g = live[pick % len(live)]
        try:
            next(g)
        except StopIteration:
            live.remove(g)
    fa, nta = ra[0]
    fb, ntb = rb[0]
    return [(sig + ':two-clients', msg) for sig, msg in fa + fb], (nta or ntb)


def steps(case, result):
    """Generator form of one client conversation: yields after every API call; appends (failures, nontrivial) to `result`."""
    lmtp = case['lmtp']
    script = [(c, list(l)) for c, l in case['script']]
    peer = ReactivePeer(script, case['chunks'], lmtp, bool(case.get('emptysep')))
    client = (LmtpClient if lmtp else Client)(peer, ('peer', 25))
    out = []
    returned = []        # (call name, Reply)   in call order == wire order
    pending = []         # replies not yet required to be filled
    desc = ' '.join(c[0] if isinstance(c, list) else c for c in case['calls'])

    def sync_check(where):
        # every returned reply must now hold the script entry of its own slot
        for slot, (name, rep, _) in enumerate(returned):
            if rep is None:
                continue            # refused as a bad reply (code outside 1xx-5xx): nothing was handed back for this slot
            code, lines = script[slot] if slot < len(script) else ('250', ['2.0.0 filler %d' % slot])
            want_text = '\r\n'.join(lines)
            if name in ('ehlo', 'lhlo') and code == '250':
                want_text = lines[0]
            if rep.code != code or rep.message != want_text:
                return [('C10:reply-mispaired:%s' % ('lmtp' if lmtp else 'smtp'),
                         '%s: after %s the reply of call #%d (%s) holds (%r, %r), script slot %d is (%r, %r)'
                         % (desc, where, slot, name, rep.code, (rep.message or '')[:40], slot, code, want_text[:40]))]
        return []

    try:
        r = client.get_banner()
        returned.append(('banner', r, None))
        out += sync_check('get_banner')
        pipelining = False
        data_ok = False
        for call in case['calls']:
            if out:
                break
            yield
            name = call[0]
            if name in ('ehlo', 'helo', 'lhlo'):
                r = getattr(client, name)('client.example')
                returned.append((name, r, None))
                pipelining = 'PIPELINING' in client.extensions
                out += sync_check(name)
            elif name == 'mailfrom':
                returned.append((name, client.mailfrom(call[1]), None))
                if not pipelining:
                    out += sync_check(name)
            elif name == 'bad-hello':
                # an identity that cannot be sent (not ASCII): the call fails, nothing was sent and no reply is owed
                try:
                    getattr(client, call[1])('cl\u00efent.example')
                except UnicodeError:
                    pass
                else:
                    out.append(('C10:non-ascii-identity-sent', desc))
            elif name == 'bad-address':
                # an address that cannot be sent (non-ASCII, SMTPUTF8 not on offer): the call fails, nothing was sent and no reply is owed
                try:
                    getattr(client, call[1])('b\u00e9b\u00e9@y.org')
                except UnicodeError:
                    pass
                else:
                    out.append(('C10:non-ascii-address-sent-without-smtputf8', desc))
            elif name == 'rcptto':
                returned.append((name, client.rcptto(call[1]), call[1]))
                if not pipelining:
                    out += sync_check(name)
            elif name == 'data':
                r = client.data()
                returned.append((name, r, None))
                out += sync_check(name)
                data_ok = r.code == '354'
            elif name in ('send_data', 'send_empty_data'):
                if not data_ok:
                    # the caller resets instead (valid use of the API)
                    r = client.rset()
                    returned.append(('rset', r, None))
                    out += sync_check('rset')
                    continue
                data_ok = False
                if name == 'send_data':
                    res = client.send_data(*[p.encode('latin-1') for p in call[1]])
                else:
                    res = client.send_empty_data()
                if lmtp:
                    # pairing with accepted recipients: exactly the 2xx RCPTs since the last reset, in order
                    want = case_accepted_rcpts(returned)
                    got = [a for a, _ in res]
                    if got != want:
                        out.append(('C10:lmtp-recipient-pairing',
                                    '%s: send_data returned recipients %r, the server accepted %r' % (desc, got, want)))
                        break
                    for a, rep in res:
                        returned.append(('data:' + a, rep, None))
                else:
                    returned.append((name, res, None))
                if not pipelining:
                    out += sync_check(name)
            elif name == 'rset':
                returned.append((name, client.rset(), None))
                out += sync_check(name)
            elif name == 'quit':
                returned.append((name, client.quit(), None))
                out += sync_check(name)
            elif name == 'custom':
                slot = len(returned)
                try:
                    r = client.custom_command(call[1].encode(), call[2].encode() if call[2] else None)
                except BadReply:
                    if not (slot < len(script) and script[slot][0][0] not in '12345'):
                        raise
                    # a three-digit code that is no SMTP code: refusing it is fine, but exactly that reply must be gone
                    r = None
                returned.append((name, r, None))
                out += sync_check(name)
        if not out:
            client._flush_pipeline()
            out += sync_check('final flush')
    except WouldBlockForever:
        out.append(('C10:read-past-owed-replies:%s' % ('lmtp' if lmtp else 'smtp'),
                    '%s: the client issued a recv() although every reply it was owed had been delivered' % desc))
    except Exception as e:
        out.append(('C10:client-exception:%s' % type(e).__name__, '%s: %r' % (desc, e)))
    if not out and peer.outbuf:
        out.append(('C10:unread-replies', '%s: %r left unread after the final flush' % (desc, peer.outbuf[:60])))
    codes = [c for c, _ in script[:len(returned)]]
    nt = (case['pipelining'] and any(c[0] in '45' for c in codes[2:]) and any(c[0] == '2' for c in codes[2:])
          and (any(len(l) > 1 for _, l in script[:len(returned)]) or case['chunks'] != [4096]))
    result.append((out, nt))


def run_badcode(case):
    """A pipelined batch (MAIL, RCPT x n) in which ONE reply carries a three-digit code that is no SMTP code: the flush that
    meets it fails with BadReply - and only that reply is gone. The caller carries on (RSET, QUIT): every other reply object
    still ends up holding the reply to its own command, and nothing is read past the owed replies."""
    lmtp, n, bad, sync = bool(case['lmtp']), int(case['n']), int(case['bad']), case['sync']
    script = [('220', ['banner']), ('250', ['greeting', 'PIPELINING'])]
    for k in range(n + 1):
        code = str(case['code']) if k == bad else ('250' if k % 2 == 0 else '550')
        script.append((code, ['%s.1.%d batch %d' % (code[0], k, k)] if code[0] in '245' else ['batch %d' % k, 'second line']))
    script += [('250', ['2.0.0 sync']), ('250', ['2.0.0 reset', 'second']), ('221', ['2.0.0 bye'])]
    peer = ReactivePeer(script, case['chunks'], lmtp)
    client = (LmtpClient if lmtp else Client)(peer, ('peer', 25))
    desc = 'badcode %r' % (case,)
    returned = {}
    try:
        returned[0] = client.get_banner()
        returned[1] = (client.lhlo if lmtp else client.ehlo)('client.example')
        if 'PIPELINING' not in client.extensions:
            return [('C10:pipelining-not-seen', desc)]
        returned[2] = client.mailfrom('s@x.org')
        for k in range(n):
            returned[3 + k] = client.rcptto('r%d@y.org' % k)
        try:
            if sync == 'rset':
                client.rset()
            else:
                client.custom_command(b'NOOP')
        except BadReply:
            pass
        else:
            return [('C10:non-smtp-code-accepted', desc)]
        returned[4 + n] = client.rset()
        returned[5 + n] = client.quit()
        client._flush_pipeline()
    except WouldBlockForever:
        return [('C10:read-past-owed-replies:after-bad-code', '%s: recv() although every owed reply had been delivered' % desc)]
    except Exception as e:
        return [('C10:client-exception:%s' % type(e).__name__, '%s: %r' % (desc, e))]
    out = []
    for slot, rep in sorted(returned.items()):
        if slot == 2 + bad:
            continue
        code, lines = script[slot]
        want = lines[0] if slot == 1 else '\r\n'.join(lines)
        if rep.code != code or rep.message != want:
            out.append(('C10:reply-mispaired:after-bad-code',
                        '%s: the reply object of slot %d holds (%r, %r), the server answered (%r, %r)'
                        % (desc, slot, rep.code, (rep.message or '')[:40], code, want[:40])))
            break
    if not out and peer.outbuf:
        out.append(('C10:unread-replies', '%s: %r left unread' % (desc, peer.outbuf[:60])))
    return out


def badcode_cases():
    for lmtp in (False, True):
        for n in (1, 2, 3):
            for bad in range(n + 1):
                for code in ('650', '099', '999'):
                    for sync in ('rset', 'noop'):
                        for chunks in ([4096], [1], [7, 3]):
                            yield {'kind': 'badcode', 'lmtp': lmtp, 'n': n, 'bad': bad, 'code': code, 'sync': sync, 'chunks': chunks}


def case_accepted_rcpts(returned):
    """Addresses of the 2xx RCPT replies since the last reset point (reference for LMTP pairing)."""
    acc = []
    for name, rep, addr in returned:
        if name in ('mailfrom', 'rset') or name.startswith('data:') or (name == 'lhlo' and rep.code == '250'):
            acc = []
        elif name == 'rcptto' and rep.code and rep.code.startswith('2'):
            acc.append(addr)
    return acc


_CODES = st.sampled_from(['250', '250', '250', '251', '450', '451', '550', '553', '421', '221', '354', '500', '252'])
_words = st.sampled_from(['Ok', 'a', 'queued as 12345', 'x-y', 'go ahead', 'é ü', '250 not a code', 'PIPELINING', '.'])


@st.composite
def reply_for(draw, slot, force=None):
    code = force or draw(_CODES)
    n = draw(st.sampled_from([1, 1, 1, 2, 3]))
    lines = []
    for k in range(n):
        text = 'r%d.%d %s' % (slot, k, draw(_words))
        lines.append(text)
    esc = esc_for(code)
    if esc:
        lines[0] = '%s.%d.%d %s' % (esc, draw(st.integers(0, 9)), draw(st.integers(0, 9)), lines[0])
    if draw(st.integers(0, 5)) == 0:
        if n == 1:
            lines = ['']                # the whole reply is the bare code
        else:
            lines[-1] = ''
    return code, lines


@st.composite
def case_strategy(draw):
    lmtp = draw(st.booleans())
    pipelining = draw(st.booleans())
    calls = []
    script = []

    def add(call, force=None):
        calls.append(call)
        script.append(draw(reply_for(len(script), force)))
        return script[-1][0]

    script.append(draw(reply_for(0, draw(st.sampled_from(['220', '220', '220', '554', '421'])))))
    hello = 'lhlo' if lmtp else draw(st.sampled_from(['ehlo', 'ehlo', 'helo']))
    if draw(st.integers(0, 9)) == 0:
        calls.append(['bad-hello', hello])
    calls.append([hello])
    hcode = draw(st.sampled_from(['250', '250', '250', '250', '500', '550']))
    hl = ['greeting r1 here']
    if hcode == '250' and hello != 'helo':
        exts = draw(st.lists(st.sampled_from(['8BITMIME', 'SIZE 1000', 'SMTPUTF8', 'ENHANCEDSTATUSCODES', 'AUTH PLAIN', 'X-EXT']),
                             max_size=3, unique=True))
        if pipelining:
            exts.insert(draw(st.integers(0, len(exts))), 'PIPELINING')
        hl += exts
    else:
        pipelining = False
    script.append((hcode, hl))
    for t in range(draw(st.integers(1, 3))):
        if draw(st.integers(0, 11)) == 0:
            calls.append(['bad-hello', hello])
        if draw(st.integers(0, 5)) == 0:
            add(['custom', 'NOOP', ''], force=draw(st.sampled_from([None, None, '650', '099', '999'])))
        utf8_off = not (hcode == '250' and hello != 'helo' and 'SMTPUTF8' in hl)
        if utf8_off and draw(st.integers(0, 7)) == 0:
            calls.append(['bad-address', 'mailfrom'])
        add(['mailfrom', 's%d@x.org' % t])
        if utf8_off and draw(st.integers(0, 5)) == 0:
            calls.append(['bad-address', 'rcptto'])
        nr = draw(st.integers(0, 4))
        rcpt_codes = []
        for k in range(nr):
            # the same mailbox may be named twice in one transaction
            same = draw(st.integers(0, k - 1)) if k and draw(st.integers(0, 4)) == 0 else k
            rcpt_codes.append(add(['rcptto', 'r%d.%d@y.org' % (t, same)]))
        end = draw(st.sampled_from(['data', 'data', 'data', 'rset']))
        if end == 'data':
            dcode = add(['data'], force=draw(st.sampled_from(['354', '354', '354', '550', '451', '503'])))
            kind = draw(st.sampled_from(['send_data', 'send_data', 'send_empty_data']))
            parts = draw(st.lists(st.sampled_from(['Subject: x\r\n\r\n', 'body\r\n', '.\r\n', 'no newline', '']), min_size=1, max_size=2))
            calls.append([kind, parts] if kind == 'send_data' else [kind])
            if dcode == '354':
                n = sum(1 for c in rcpt_codes if c.startswith('2')) if lmtp else 1
                for _ in range(n):
                    script.append(draw(reply_for(len(script))))
            else:
                script.append(draw(reply_for(len(script), '250')))     # the RSET the caller issues instead
        elif end == 'rset':
            add(['rset'], force='250')
        if draw(st.integers(0, 6)) == 0:
            add(['custom', 'VRFY', 'someone'], force=draw(st.sampled_from([None, None, None, '650', '700'])))
    add(['quit'], force=draw(st.sampled_from(['221', '221', '250', '421'])))
    chunks = draw(st.one_of(st.just([4096]), st.just([1]), st.lists(st.integers(1, 40), min_size=1, max_size=6)))
    return {'lmtp': lmtp, 'pipelining': pipelining, 'calls': calls, 'script': [[c, l] for c, l in script], 'chunks': chunks,
            'emptysep': draw(st.booleans())}


def run_shard(ctx):
    for index, bc in enumerate(badcode_cases()):
        if ctx.mine(index):
            ctx.record(repr(bc), bc['bad'] < bc['n'], labels=['bad-code-inside-a-pipelined-batch'], case=bc, failures=run_badcode(bc))

    def one(case):
        f, nt = run_case(case)
        labels = ['lmtp' if case['lmtp'] else 'smtp', 'pipelining' if case['pipelining'] else 'no-pipelining',
                  'chunks=%s' % ('burst' if case['chunks'] == [4096] else 'cut')]
        ctx.record(repr(case), nt, labels=labels, case=case, failures=f)
    hyp.drive(ctx, case_strategy(), one, ctx.n(8000, 200000))

    def two(v):
        a, b, schedule = v
        f, nt = run_pair(a, b, schedule)
        ctx.record(repr(v), nt, labels=['two-clients'], case={'pair': [a, b], 'schedule': schedule}, failures=f)
    hyp.drive(ctx, st.tuples(case_strategy(), case_strategy(), st.lists(st.integers(0, 1), min_size=1, max_size=12)), two,
              ctx.n(1500, 30000), salt=1)


def replay(case):
    if case.get('kind') == 'badcode':
        try:
            return run_badcode(case)
        except (KeyError, ValueError, TypeError):
            return []
    if 'pair' in case:
        try:
            a, b = [_sanitise(c) for c in case['pair']]
            sched = [int(x) % 2 for x in case.get('schedule', [])] or [0]
        except Exception:
            return []
        if a is None or b is None:
            return []
        return run_pair(a, b, sched)[0]
    case = _sanitise(case)
    if case is None:
        return []
    f, _ = run_case(case)
    return f


def _sanitise(case):
    try:
        script = [(str(c), [str(x) for x in l]) for c, l in case['script']]
    except Exception:
        return None
    for c, l in script:
        if len(c) != 3 or not c.isdigit() or c[0] not in '0123456789' or not l or any(('\r' in x or '\n' in x) for x in l) \
                or any(not x for x in l[:-1]):
            return None
        esc = esc_for(c)
        if esc and l != [''] and not l[0].startswith(esc + '.'):
            return None
    calls = [c for c in case.get('calls', []) if isinstance(c, list) and c]
    # structural validity of the call sequence and script/slot alignment cannot be re-derived after arbitrary
    # shrinking: a replay only accepts cases whose script length matches what the calls consume
    return dict(case, calls=calls, script=[[c, l] for c, l in script], chunks=[int(x) for x in case.get('chunks', [4096])] or [4096])
