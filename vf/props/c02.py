"""C02 - an edge acknowledges a message only after custody of every recipient is taken."""
import io
import base64
import itertools

import gevent
from gevent.event import AsyncResult
from hypothesis import strategies as st

from vf import hyp
from vf import smtpmodel as sm          # installs the inert PtrLookup for slimta.edge.smtp
from vf.transport import ScriptedSocket

import slimta.edge.wsgi as edge_wsgi
from slimta.edge.smtp import SmtpEdge
from slimta.edge.wsgi import WsgiEdge
from slimta.queue import Queue, QueueStorage, QueueError
from slimta.queue.proxy import ProxyQueue
from slimta.policy.split import RecipientSplit, RecipientDomainSplit
from slimta.policy.headers import AddReceivedHeader
from slimta.relay import Relay, TransientRelayError, PermanentRelayError
from slimta.smtp.reply import Reply

edge_wsgi.PtrLookup = sm._InertPtr

ID = 'C02'
REALTIME = True      # runs on the wall clock: an unreproducible failure is re-run before it counts (see runner)
LEVEL = 'fault_enumeration'
RULE = ('fault enumeration: edge in {SmtpEdge session on a scripted socket, WsgiEdge.__call__ on a synthetic environ} x queue in '
        '{real Queue + policy chain (none / RecipientSplit / RecipientDomainSplit / Received+split) over a fault-injecting store, '
        'ProxyQueue + scripted relay}; exhaustive table: n = 1..5 envelopes x failing write k = 1..n x fault kind (QueueError with '
        '4xx reply, 5xx reply, no reply, other exception, slow write, slow then failing) and, for ProxyQueue, every result shape x '
        'failure position; plus Hypothesis cases with several faults, rejected RCPTs and generated release orders of slow writes. '
        'non-trivial = n >= 2 and fault position >= 2, or a slow write released last, or a per-recipient proxy result with a failure; '
        'distinct = distinct (edge, queue, recipients, faults, release order)')
ASSUMPTIONS = ['a write counts as custody when QueueStorage.write returned an id', 'slow writes are modelled by gates the harness releases']

FAULTS = ['ok', 'qe4', 'qe5', 'qe-noreply', 'exc', 'slow', 'slow-qe4']


class FaultStore(QueueStorage):
    def __init__(self, plan, log, gates):
        super(FaultStore, self).__init__()
        self.plan = plan
        self.log = log
        self.gates = gates
        self.n = 0

    def write(self, envelope, timestamp):
        i = self.n
        self.n += 1
        fault = self.plan[i] if i < len(self.plan) else 'ok'
        self.log.append(('write_start', i, list(envelope.recipients)))
        if fault.startswith('slow'):
            g = AsyncResult()
            self.gates.append((i, g))
            g.get()
        if fault in ('qe4', 'slow-qe4'):
            e = QueueError('full')
            e.reply = Reply('452', '4.3.1 storage full')
            self.log.append(('write_end', i, 'fail'))
            raise e
        if fault == 'qe5':
            e = QueueError('refused')
            e.reply = Reply('554', '5.3.0 refused')
            self.log.append(('write_end', i, 'fail'))
            raise e
        if fault == 'qe-noreply':
            self.log.append(('write_end', i, 'fail'))
            raise QueueError('no reply attribute')
        if fault == 'exc':
            self.log.append(('write_end', i, 'fail'))
            raise RuntimeError('disk on fire')
        self.log.append(('write_end', i, 'ok'))
        return 'id%d' % i


class ProxyRelay(Relay):
    def __init__(self, spec, log):
        super(ProxyRelay, self).__init__()
        self.spec = spec
        self.log = log

    def attempt(self, envelope, attempts):
        shape = self.spec['shape']
        per = self.spec.get('per') or ['ok']
        rc = list(envelope.recipients)
        kinds = [per[i % len(per)] for i in range(len(rc))]
        self.log.append(('relay', rc, shape, kinds))
        if shape == 'none':
            return None
        if shape == 'reply':
            return Reply('250', '2.0.0 relayed')
        if shape == 'raise_t':
            raise TransientRelayError('t', Reply('451', '4.0.0 later'))
        if shape == 'raise_p':
            raise PermanentRelayError('p', Reply('550', '5.0.0 no'))
        vals = []
        for k in kinds:
            vals.append(None if k == 'ok' else (TransientRelayError('t', Reply('451', '4.0.0 later')) if k == 'temp'
                                                else PermanentRelayError('p', Reply('550', '5.0.0 no'))))
        if shape == 'map':
            # a mapping holds one verdict per distinct address: with a repeated recipient the later one is what the relay reports
            ret = dict(zip(rc, vals))
            self.log[-1] = ('relay', rc, shape, ['ok' if ret[r] is None else 'fail' for r in rc])
            return ret
        return vals


def build_queue(case, log, gates):
    if case['queue'] == 'proxy':
        return ProxyQueue(ProxyRelay(case['relay'], log))
    q = Queue(FaultStore(case['plan'], log, gates))
    for p in case['policies']:
        q.add_policy({'split': RecipientSplit, 'domsplit': RecipientDomainSplit, 'received': AddReceivedHeader}[p]())
    return q


def rcpt_addr(i, case):
    d = case.get('domains', 'many')
    return 'r%d@d%d.example' % (i, i if d == 'many' else (i // 2 if d == 'pairs' else i % 2))


def run_case(case):
    log = []
    gates = []
    out = []
    queue = build_queue(case, log, gates)
    n = case['nrcpt']
    rcpts = [rcpt_addr(i, case) for i in range(n)]
    for i, j in case.get('dups', []):
        rcpts[i] = rcpts[j]              # the same address given in two RCPT commands
    rejected = set(case.get('rejected', []))
    accepted = [r for i, r in enumerate(rcpts) if i not in rejected]
    body = b'Subject: t\r\n\r\nbody\r\n'
    result = {}

    if case['edge'] == 'smtp':
        lines = [b'EHLO c\r\n', b'MAIL FROM:<s@x.example>\r\n']
        for i, r in enumerate(rcpts):
            addr = r if i not in rejected else 'v550' + r
            lines.append(('RCPT TO:<%s>\r\n' % addr).encode())
        lines += [b'DATA\r\n', body + b'.\r\n', b'QUIT\r\n']
        sock = ScriptedSocket(lines)
        edge = SmtpEdge(None, queue, hostname='edge', validator_class=sm.make_validators([], sock, None))

        def run():
            try:
                edge.handle(sock, ('1.2.3.4', 5))
            except Exception as e:
                result['exc'] = e

        def final_reply():
            replies, _ = sm.parse_replies(sock.output())
            want = 3 + len(rcpts) + 1       # banner, EHLO, MAIL, RCPTs, 354
            if len(replies) > want:
                return replies[want][0]
            return None
    elif case['edge'] == 'wsgi-http':
        # the same WSGI application behind gevent's WSGIServer, driven by a real HTTP client on loopback
        from gevent.pywsgi import WSGIServer
        from http import client as httplib
        from slimta.http import HTTPConnection
        if not accepted:
            accepted = rcpts
            rejected = set()
        edge = WsgiEdge(queue, hostname='edge')
        server = WSGIServer(('127.0.0.1', 0), edge, log=None, error_log=None)
        server.start()
        status = {}

        def run():
            try:
                conn = HTTPConnection('127.0.0.1', server.server_port)
                conn.putrequest('POST', '/')
                conn.putheader('Content-Type', 'message/rfc822')
                conn.putheader('Content-Length', str(len(body)))
                conn.putheader('X-Ehlo', 'c')
                conn.putheader('X-Envelope-Sender', base64.b64encode(b's@x.example').decode())
                for r in accepted:
                    conn.putheader('X-Envelope-Recipient', base64.b64encode(r.encode()).decode())
                conn.endheaders(body)
                res = conn.getresponse()
                status['status'] = '%d %s' % (res.status, res.reason)
                res.read()
                conn.close()
            except Exception as e:
                result['exc'] = e
            finally:
                server.stop()

        def final_reply():
            s = status.get('status')
            if not s:
                return None
            return {'2': '250', '5': '550', '4': '450'}.get(s[0], s[:3]) if s[:3] != '503' else '450'
    else:
        status = {}
        if not accepted:
            accepted = rcpts
            rejected = set()
        environ = {'REQUEST_METHOD': 'POST', 'PATH_INFO': '/', 'CONTENT_TYPE': 'message/rfc822',
                   'CONTENT_LENGTH': str(len(body)), 'wsgi.input': io.BytesIO(body), 'REMOTE_ADDR': '1.2.3.4',
                   'HTTP_X_ENVELOPE_SENDER': base64.b64encode(b's@x.example').decode(),
                   'HTTP_X_ENVELOPE_RECIPIENT': ', '.join(base64.b64encode(r.encode()).decode() for r in accepted),
                   'HTTP_X_EHLO': 'c', 'wsgi.url_scheme': 'http'}
        edge = WsgiEdge(queue, hostname='edge')

        def start_response(st_, headers):
            status['status'] = st_
            status['headers'] = headers
            log.append(('reply', st_[:3]))

        def run():
            try:
                list(edge(environ, start_response) or [])
            except Exception as e:
                result['exc'] = e

        def final_reply():
            s = status.get('status')
            if not s:
                return None
            return {'2': '250', '5': '550', '4': '450'}.get(s[0], s[:3]) if s[:3] != '503' else '450'

    g = gevent.spawn(run)
    order = list(case.get('release', []))
    released_last_slow = False
    realtime = case['edge'] == 'wsgi-http'
    for step in range(3000 if realtime else 20):
        if realtime:
            gevent.sleep(0.001)
        gevent.idle()
        if g.dead and not gates:
            break
        if gates:
            # custody incomplete: no success reply may exist yet
            fr = final_reply()
            if fr is not None and fr.startswith('2'):
                out.append(('C02:success-before-write-completed:%s' % case['edge'],
                            '%r: reply %s visible while write(s) %r are still in progress' % (brief(case), fr, [i for i, _ in gates])))
                for _, gt in gates:
                    gt.set(None)
                gates[:] = []
                break
            k = (order.pop(0) if order else 0) % len(gates)
            i, gt = gates.pop(k)
            if not gates:
                released_last_slow = True
            gt.set(None)
    g.join(timeout=5)
    if not g.dead:
        g.kill()
        return [('C02:edge-hangs:%s' % case['edge'], brief(case))], False
    fr = final_reply()
    # what custody was actually taken
    if case['queue'] == 'proxy':
        relays = [e for e in log if e[0] == 'relay']
        bad = False
        for _, rc, shape, kinds in relays:
            if shape in ('raise_t', 'raise_p'):
                bad = True
            elif shape in ('map', 'seq') and any(k != 'ok' for k in kinds):
                bad = True
        all_ok = bool(relays) and not bad
        nt = any(shape in ('map', 'seq') and any(k != 'ok' for k in kinds) for _, rc, shape, kinds in relays)
    else:
        ends = [e for e in log if e[0] == 'write_end']
        covered = sorted(r for e in log if e[0] == 'write_start' for r in e[2]
                         if any(x[1] == e[1] and x[2] == 'ok' for x in ends))
        failed = [e for e in ends if e[2] == 'fail']
        all_ok = not failed and covered == sorted(accepted)
        fault_pos = [i for i, f in enumerate(case['plan']) if f != 'ok']
        nt = (len(case['plan']) >= 2 and any(p >= 1 for p in fault_pos)) or released_last_slow
    if fr is None:
        if 'exc' in result and not all_ok:
            return out, nt        # the session died without any reply: not a success
        out.append(('C02:no-final-reply:%s' % case['edge'], '%r: %r' % (brief(case), result.get('exc'))))
        return out, nt
    if fr.startswith('2') and not all_ok:
        what = 'proxy relay result had failures' if case['queue'] == 'proxy' else \
            'writes %r failed / recipients covered %r of %r' % ([e[1] for e in log if e[0] == 'write_end' and e[2] == 'fail'],
                                                               covered, accepted)
        out.append(('C02:success-reply-without-custody:%s:%s' % (case['edge'], case['queue']),
                    '%r: reply %s although %s' % (brief(case), fr, what)))
    if all_ok and not fr.startswith('2'):
        out.append(('C02:failure-reply-although-custody-taken:%s:%s' % (case['edge'], case['queue']),
                    '%r: reply %s' % (brief(case), fr)))
    return out, nt


def brief(case):
    return dict((k, v) for k, v in case.items() if k not in ('release',))


def table():
    for edge in ('smtp', 'wsgi'):
        for policies, domains in ((['split'], 'many'), (['domsplit'], 'many'), (['received', 'split'], 'many'), ([], 'many'),
                                  (['domsplit'], 'two')):
            for n in range(1, 6):
                nenv = n if 'split' in policies else (1 if not policies else (n if domains == 'many' else min(n, 2)))
                yield {'edge': edge, 'queue': 'queue', 'policies': policies, 'domains': domains, 'nrcpt': n, 'plan': ['ok'] * nenv,
                       'release': [0]}
                for k in range(nenv):
                    for fault in FAULTS[1:]:
                        plan = ['ok'] * nenv
                        plan[k] = fault
                        yield {'edge': edge, 'queue': 'queue', 'policies': policies, 'domains': domains, 'nrcpt': n,
                               'plan': plan, 'release': [0]}
        # chains of two splitting policies: every product is split again (n envelopes in the end)
        for policies in (['domsplit', 'split'], ['split', 'domsplit'], ['received', 'domsplit', 'split']):
            for domains in ('two', 'pairs', 'many'):
                for n in range(1, 6):
                    yield {'edge': edge, 'queue': 'queue', 'policies': policies, 'domains': domains, 'nrcpt': n, 'plan': ['ok'] * n,
                           'release': [0]}
                    for k in range(n):
                        for fault in ('qe4', 'exc', 'slow'):
                            plan = ['ok'] * n
                            plan[k] = fault
                            yield {'edge': edge, 'queue': 'queue', 'policies': policies, 'domains': domains, 'nrcpt': n,
                                   'plan': plan, 'release': [0]}
        for n in range(1, 5):
            for shape in ('none', 'reply', 'raise_t', 'raise_p'):
                yield {'edge': edge, 'queue': 'proxy', 'nrcpt': n, 'relay': {'shape': shape}, 'plan': []}
            for shape in ('map', 'seq'):
                for kinds in itertools.product(('ok', 'temp', 'perm'), repeat=n):
                    yield {'edge': edge, 'queue': 'proxy', 'nrcpt': n, 'relay': {'shape': shape, 'per': list(kinds)}, 'plan': []}
                    if n in (2, 3) and len(set(kinds)) > 1:
                        for i in range(1, n):
                            yield {'edge': edge, 'queue': 'proxy', 'nrcpt': n, 'relay': {'shape': shape, 'per': list(kinds)}, 'plan': [],
                                   'dups': [[i, 0]]}


@st.composite
def random_case(draw):
    edge = draw(st.sampled_from(['smtp', 'wsgi']))
    n = draw(st.integers(1, 5))
    if draw(st.integers(0, 3)) == 0:
        return {'edge': edge, 'queue': 'proxy', 'nrcpt': n, 'plan': [],
                'relay': {'shape': draw(st.sampled_from(['map', 'seq', 'none', 'raise_t'])),
                          'per': draw(st.lists(st.sampled_from(['ok', 'ok', 'temp', 'perm']), min_size=1, max_size=5))},
                'rejected': draw(st.lists(st.integers(0, n - 1), max_size=2, unique=True)) if n > 1 else [],
                'dups': [[draw(st.integers(1, n - 1)), 0]] if n > 1 and draw(st.booleans()) else []}
    policies = draw(st.sampled_from([['split'], ['domsplit'], ['received', 'split'], [], ['split', 'domsplit'], ['domsplit', 'split']]))
    plan = draw(st.lists(st.sampled_from(FAULTS + ['ok', 'ok', 'slow']), min_size=n, max_size=n))
    if draw(st.integers(0, 2)) == 0:
        plan = [p if p in ('ok', 'slow') else 'ok' for p in plan]       # custody of everything: the reply must be a success
    rej = draw(st.lists(st.integers(0, n - 1), max_size=2, unique=True)) if n > 1 else []
    if len(rej) >= n:
        rej = rej[:-1]
    return {'edge': edge, 'queue': 'queue', 'policies': policies, 'domains': draw(st.sampled_from(['many', 'two', 'pairs'])), 'nrcpt': n,
            'plan': plan, 'rejected': rej, 'release': draw(st.lists(st.integers(0, 4), max_size=6)),
            'dups': [[draw(st.integers(1, n - 1)), 0]] if n > 1 and draw(st.integers(0, 3)) == 0 else []}


# =====================================================================================
# real back ends behind the edge: DiskStorage with an injected I/O error, ProxyQueue over a real PipeRelay
# =====================================================================================

def _drive_edge(edge_kind, queue, rcpts):
    """One message through the edge; -> class of the final reply ('2', '4', '5') or None."""
    body = b'Subject: t\r\n\r\nbody\r\n'
    if edge_kind == 'smtp':
        lines = [b'EHLO c\r\n', b'MAIL FROM:<s@x.example>\r\n'] + [('RCPT TO:<%s>\r\n' % r).encode() for r in rcpts] + \
                [b'DATA\r\n', body + b'.\r\n', b'QUIT\r\n']
        sock = ScriptedSocket(lines)
        edge = SmtpEdge(None, queue, hostname='edge')
        g = gevent.spawn(lambda: edge.handle(sock, ('1.2.3.4', 5)))
        g.join(timeout=20)
        if not g.dead:
            g.kill(block=False)
            return 'hang'
        replies, _ = sm.parse_replies(sock.output())
        want = 3 + len(rcpts) + 1
        return replies[want][0][0] if len(replies) > want else None
    status = {}
    environ = {'REQUEST_METHOD': 'POST', 'PATH_INFO': '/', 'CONTENT_TYPE': 'message/rfc822',
               'CONTENT_LENGTH': str(len(body)), 'wsgi.input': io.BytesIO(body), 'REMOTE_ADDR': '1.2.3.4',
               'HTTP_X_ENVELOPE_SENDER': base64.b64encode(b's@x.example').decode(),
               'HTTP_X_ENVELOPE_RECIPIENT': ', '.join(base64.b64encode(r.encode()).decode() for r in rcpts),
               'HTTP_X_EHLO': 'c', 'wsgi.url_scheme': 'http'}
    edge = WsgiEdge(queue, hostname='edge')

    def run():
        try:
            list(edge(environ, lambda st_, headers: status.update(status=st_)) or [])
        except Exception:
            pass
    g = gevent.spawn(run)
    g.join(timeout=20)
    if not g.dead:
        g.kill(block=False)
        return 'hang'
    s_ = status.get('status')
    return None if not s_ else ('2' if s_[0] == '2' else ('4' if s_[:3] == '503' else '5'))


def run_real_case(case):
    import os
    import shutil
    import tempfile
    n = case['nrcpt']
    rcpts = ['r%d@d%d.example' % (i, i % 2) for i in range(n)]
    desc = repr(case)
    if case['real'] == 'pipe':
        from slimta.relay.pipe import PipeRelay
        d = tempfile.mkdtemp(prefix='vfc02p_')
        try:
            prog = os.path.join(d, 'deliver.sh')
            arms = ''.join('r%d@*) %s;;\n' % (i, 'exit %d' % st_ if st_ >= 0 else 'kill -%d $$; sleep 5' % -st_)
                           for i, st_ in enumerate(case['status'][:n]))
            with open(prog, 'w') as f:
                f.write('#!/bin/sh\ncat >/dev/null\ncase "$1" in\n%sesac\nexit 0\n' % arms)
            os.chmod(prog, 0o755)
            queue = ProxyQueue(PipeRelay([prog, '{recipient}'], timeout=20))
            fr = _drive_edge(case['edge'], queue, rcpts)
        finally:
            shutil.rmtree(d, ignore_errors=True)
        all_ok = all(st_ == 0 for st_ in (case['status'] + [0] * n)[:n])
        what = 'delivery program statuses %r' % case['status'][:n]
    elif case['real'] == 'smtp':
        # the proxying queue over the real SMTP relay: the next hop answers some stage with a reply of the wrong class
        from slimta.relay.smtp.static import StaticSmtpRelay
        from vf.peers import StagePeer, StubClientContext, kill_relay
        peers = []

        def creator(address):
            p_ = StagePeer(case['script'], exts=['8BITMIME', 'PIPELINING'] if case.get('pipelining') else ['8BITMIME'])
            peers.append(p_)
            return p_
        relay = StaticSmtpRelay('peer.example', 25, socket_creator=creator, context=StubClientContext(), ehlo_as='relay.example')
        try:
            fr = _drive_edge(case['edge'], ProxyQueue(relay), rcpts)
        finally:
            kill_relay(relay)
        taken = set(a for p_ in peers for (_, _, acc, _) in p_.accepted_msgs for a in acc)
        all_ok = taken == set(rcpts)
        what = 'the next hop (script %r) accepted %r of %r' % (case['script'], sorted(taken), rcpts)
    else:
        from slimta.diskstorage import DiskStorage
        from vf.props import c04
        d = tempfile.mkdtemp(prefix='vfc02d_')
        try:
            for sub in ('env', 'meta', 'tmp'):
                os.mkdir(os.path.join(d, sub))
            store = DiskStorage(os.path.join(d, 'env'), os.path.join(d, 'meta'), os.path.join(d, 'tmp'))
            queue = Queue(store)
            for p_ in case.get('policies', []):
                queue.add_policy({'split': RecipientSplit, 'domsplit': RecipientDomainSplit, 'received': AddReceivedHeader}[p_]())
            fired = []
            if case.get('ioerr'):
                ename, k = case['ioerr']
                cnt = [0]

                def hook(effect):
                    if ename in ('any', effect):
                        cnt[0] += 1
                        if cnt[0] == k + 1:
                            fired.append(effect)
                            raise OSError(28, 'No space left on device')
                c04.REC.hook = hook
            try:
                fr = _drive_edge(case['edge'], queue, rcpts)
            finally:
                c04.REC.hook = None
            # custody actually taken: what a fresh storage object finds
            fresh = DiskStorage(os.path.join(d, 'env'), os.path.join(d, 'meta'), os.path.join(d, 'tmp'))
            covered = []
            for _, i in fresh.load():
                try:
                    covered += list(fresh.get(i)[0].recipients)
                except Exception:
                    pass
        finally:
            shutil.rmtree(d, ignore_errors=True)
        all_ok = sorted(covered) == sorted(rcpts)
        what = 'storage holds %r of %r (I/O error injected at %r)' % (sorted(covered), rcpts, fired)
    out = []
    if fr == 'hang':
        return [('C02:edge-hangs:%s:%s' % (case['edge'], case['real']), desc)], True
    if fr == '2' and not all_ok:
        out.append(('C02:success-reply-without-custody:%s:%s' % (case['edge'], case['real']),
                    '%s: success reply although %s' % (desc, what)))
    if fr is not None and fr not in '245' and not all_ok:
        out.append(('C02:failure-answered-with-a-reply-of-class-%s:%s:%s' % (fr, case['edge'], case['real']),
                    '%s: the client must get a 4xx/5xx reply: %s' % (desc, what)))
    if fr is not None and fr != '2' and all_ok and not (case.get('ioerr') and fired):
        out.append(('C02:failure-reply-although-custody-taken:%s:%s' % (case['edge'], case['real']), '%s: reply class %s' % (desc, fr)))
    nt = (case['real'] in ('pipe', 'smtp') and not all_ok) or bool(case.get('ioerr') and fired)
    return out, nt


def real_table():
    for edge in ('smtp', 'wsgi'):
        for n in (1, 2, 3):
            for bad in range(n):
                for st_ in (1, 75, -9, -15):
                    status = [0] * n
                    status[bad] = st_
                    yield {'real': 'pipe', 'edge': edge, 'nrcpt': n, 'status': status}
            yield {'real': 'pipe', 'edge': edge, 'nrcpt': n, 'status': [0] * n}
        for n in (1, 2):
            for pipelining in (True, False):
                for script in ({}, {'DATA': '250'}, {'DATA': '251'}, {'DATA': '150'}, {'MAIL': '354'}, {'MAIL': '150'}, {'RCPT0': '354'},
                               {'EOD': '354'}, {'EOD': '150'}, {'EOD': '4xx'}, {'RCPT0': '5xx'}, {'MAIL': '4xx'}, {'DATA': '5xx'}):
                    yield {'real': 'smtp', 'edge': edge, 'nrcpt': n, 'pipelining': pipelining, 'script': script}
        for policies in ([], ['split'], ['domsplit']):
            for n in (1, 2, 3):
                yield {'real': 'disk', 'edge': edge, 'nrcpt': n, 'policies': policies, 'ioerr': None}
                for ename in ('mkstemp', 'chunk-write', 'rename'):
                    for k in range(0, 2 * (n if policies else 1)):
                        yield {'real': 'disk', 'edge': edge, 'nrcpt': n, 'policies': policies, 'ioerr': [ename, k]}


def run_shard(ctx):
    for i, case in enumerate(real_table()):
        if not ctx.mine(i):
            continue
        f, nt = run_real_case(case)
        ctx.record(repr(case), nt, labels=['real', 'edge=' + case['edge'], 'queue=' + case['real']], case=case, failures=f)
    for i, case in enumerate(table()):
        if not ctx.mine(i):
            continue
        f, nt = run_case(case)
        ctx.record(repr(case), nt, labels=['table', 'edge=' + case['edge'], 'queue=' + case['queue']], case=case, failures=f)
        if case['edge'] == 'wsgi' and (ctx.thorough or i % 8 == 0):
            case2 = dict(case, edge='wsgi-http')
            f, nt = run_case(case2)
            ctx.record(repr(case2), nt, labels=['table', 'edge=wsgi-http', 'queue=' + case['queue']], case=case2, failures=f)

    def one(case):
        f, nt = run_case(case)
        ctx.record(repr(case), nt, labels=['random', 'edge=' + case['edge'], 'queue=' + case['queue']], case=case, failures=f)
    hyp.drive(ctx, random_case(), one, ctx.n(1500, 30000))


def replay(case):
    if case.get('real') in ('pipe', 'disk') and case.get('edge') in ('smtp', 'wsgi'):
        try:
            c = {'real': case['real'], 'edge': case['edge'], 'nrcpt': max(1, min(3, int(case.get('nrcpt', 1))))}
            if c['real'] == 'pipe':
                c['status'] = [int(x) if -31 <= int(x) <= 255 else 1 for x in case.get('status', [])] or [0]
            else:
                c['policies'] = [p for p in case.get('policies', []) if p in ('split', 'domsplit', 'received')]
                io_ = case.get('ioerr')
                c['ioerr'] = [io_[0], max(0, int(io_[1]))] if isinstance(io_, list) and len(io_) == 2 and io_[0] in \
                    ('mkstemp', 'chunk-write', 'rename', 'unlink', 'any') else None
        except (ValueError, TypeError):
            return None            # not a case this check generates: cannot be replayed
        return run_real_case(c)[0]
    if case.get('edge') not in ('smtp', 'wsgi', 'wsgi-http') or case.get('queue') not in ('queue', 'proxy'):
        return None            # not a case this check generates: cannot be replayed
    case = dict(case)
    case['nrcpt'] = max(1, min(5, int(case.get('nrcpt', 1))))
    case['plan'] = [p if p in FAULTS else 'ok' for p in case.get('plan', [])]
    case['policies'] = [p for p in case.get('policies', []) if p in ('split', 'domsplit', 'received')]
    case['rejected'] = [int(x) for x in case.get('rejected', []) if int(x) < case['nrcpt']][:case['nrcpt'] - 1]
    case['dups'] = [[int(d[0]), int(d[1])] for d in case.get('dups', [])
                    if isinstance(d, list) and len(d) == 2 and 0 <= int(d[1]) < int(d[0]) < case['nrcpt']]
    if case['queue'] == 'proxy':
        r = case.get('relay') or {}
        if r.get('shape') not in ('none', 'reply', 'raise_t', 'raise_p', 'map', 'seq'):
            return None            # not a case this check generates: cannot be replayed
        r['per'] = [k for k in r.get('per', []) if k in ('ok', 'temp', 'perm')] or ['ok']
        case['relay'] = r
    f, _ = run_case(case)
    return f
