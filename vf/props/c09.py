"""C09 - server behaviour does not depend on how client bytes are segmented or pipelined."""
from hypothesis import strategies as st

from vf import hyp
from vf import smtpmodel as sm
from vf.smtpmodel import Item, Config, ALPHA_BY_LABEL
from vf.transport import cut

ID = 'C09'
LEVEL = 'exploration'
RULE = ('Hypothesis builds session byte streams from a grammar (1..3 transactions; bodies: empty, lone dots, dot-stuffed, '
        'command-looking lines, bare LF, over the SIZE limit; pipelined) and byte-level mutations of them; each stream is run '
        'under: one burst, per line, per byte, cuts after every CR/LF, one cut next to every line-ending dot, and 2 random cut lists; output bytes, callback trace with '
        'arguments and queued envelopes must be identical, and grammar-built streams must match the reference automaton. '
        'non-trivial = stream has a DATA phase followed by >=1 pipelined command; distinct = distinct (config, stream bytes)')
ASSUMPTIONS = ['every segmentation ends with EOF after the last byte', 'grammar-built messages stay 20 bytes away from the SIZE limit (the reference automaton does not model the exact size accounting); the size-boundary family compares segmentations only',
               'recv() returns at most 4096 bytes']

L = ALPHA_BY_LABEL

BODIES = [b'', b'.\r\n', b'..\r\n', b'x\r\n', b'QUIT\r\n', b'MAIL FROM:<evil@x.org>\r\nRCPT TO:<evil@y.org>\r\nDATA\r\n',
          b'a\nb\n', b'.\n', b'a\r\n.b\r\n\r\n..\r\n', b'no newline', b'\r\n', b'RSET\r\n.\r\nNOOP\r\n', b'\xff\x00\r\n',
          b'Subject: s\r\n\r\nbody\r\n', b'X-Verdict: 550\r\n\r\nrejected\r\n', b'.\r', b'a\r.\r\n',
          # a full stop behind leading white space is content (only a line that *starts* with the full stop can end the data)
          b' .\r\nMAIL FROM:<evil@x.org>\r\n', b'\t.\r\nQUIT\r\n', b'a\r\n  .\r\nRSET\r\n']


def observe(segs, cfg):
    res = sm.run_session(segs, cfg)
    trace = [(n, a) for (n, a, _) in res.trace]
    envs = [(e.sender, list(e.recipients), e.flatten()) for e in res.envelopes]
    err = type(res.error).__name__ if res.error is not None and res.error != 'blocked' else res.error
    output = res.output
    names = [n for n, a in trace]
    if 'TLSHANDSHAKE' in names:
        # an accepted STARTTLS (mutated streams only): client bytes that were already buffered at that moment are
        # discarded (C08 demands that), so what follows legitimately depends on the segmentation - compare up to there
        k = names.index('TLSHANDSHAKE')
        envs = envs[:sum(1 for n in names[:k] if n == 'HAVE_DATA')]
        trace = trace[:k + 1]
        pos = output.find(b'\r\n220 ')
        if pos != -1:
            end = output.find(b'\r\n', pos + 2)
            output = output[:end + 2] if end != -1 else output
        err = None
    return res, (output, trace, envs, err)


def segmentations(data, lines, extra_cuts):
    yield 'burst', [data]
    if lines:
        yield 'lines', lines
    yield 'bytes', [data[i:i + 1] for i in range(len(data))]
    yield 'crlf', cut(data, [i + 1 for i, c in enumerate(data) if c in (10, 13)])
    # one cut next to a dot that ends a line (end-of-data markers, content lines ending in a dot, stuffed dots)
    marks = [i for i in range(len(data) - 2) if data[i:i + 3] == b'.\r\n'][:8]
    for m in marks:
        for off in (0, 1, 2):
            yield 'dotcut%d+%d' % (m, off), cut(data, [m + off])
    for k, cuts in enumerate(extra_cuts):
        yield 'cuts%d' % k, cut(data, [c % (len(data) + 1) for c in sorted(set(cuts))])


def judge(data, lines, cfg, extra_cuts, items=None, exps=None, model=None):
    out = []
    base = None
    base_name = None
    toobig = False
    for name, segs in segmentations(data, lines, extra_cuts):
        segs2 = []
        for s in segs:
            for i in range(0, len(s), 4096):
                segs2.append(s[i:i + 4096])
        res, obs = observe(segs2, cfg)
        if any(n == 'HAVE_DATA' and a[1] == 'MessageTooBig' for n, a in obs[1]) or b'552 5.3.4' in obs[0]:
            toobig = True
        if items is not None and name in ('burst', 'lines', 'bytes'):
            f = sm.judge_session(items, exps, model, res, cfg, prefix='C09:ground-truth')
            for sig, msg in f:
                out.append((sig + (':size-limit' if toobig else '') + ':' + name, msg))
            if f:
                break
        if base is None:
            base, base_name = obs, name
        elif obs != base:
            what = [w for w, a, b in zip(('output', 'callbacks', 'envelopes', 'error'), obs, base) if a != b]
            out.append(('C09:segmentation-dependent:%s%s' % ('+'.join(what), ':size-limit' if toobig else ''),
                        'stream=%r: %s vs %s: %r / %r' % (data[:150], base_name, name,
                                                          _brief(base, what), _brief(obs, what))))
            break
    return out


def _brief(obs, what):
    d = dict(zip(('output', 'callbacks', 'envelopes', 'error'), obs))
    return repr([d[w] for w in what])[:300]


@st.composite
def grammar_session(draw):
    size = draw(st.sampled_from([None, None, 1000]))
    cfg = Config(auth=draw(st.booleans()), size=size, starttls=draw(st.booleans()),
                 layer=draw(st.sampled_from(['bare', 'edge'])))
    items = []
    if draw(st.integers(0, 5)) == 0:
        items.append(L['STARTTLS'])        # before EHLO: refused, whatever is pipelined behind it must still be processed
    items.append(draw(st.sampled_from([L['EHLO'], L['EHLO'], L['HELO']])))
    if cfg.auth and draw(st.integers(0, 2)) == 0:
        # an AUTH exchange whose answers are pipelined behind the command (or arrive one by one)
        items.append(draw(st.sampled_from([L['AUTH-login'], L['AUTH-login'], L['AUTH-plain'], L['AUTH-cancel']])))
    for _ in range(draw(st.integers(1, 3))):
        items.append(draw(st.sampled_from([L['MAIL'], L['MAIL-null'], L['mail-lower'], L['MAIL/450']])))
        for _ in range(draw(st.integers(1, 3))):
            items.append(draw(st.sampled_from([L['RCPT'], L['RCPT2'], L['RCPT/550'], L['RCPT'], L['RCPT-then-DATA/550']])))
        body = draw(st.one_of(st.sampled_from(BODIES), st.lists(st.sampled_from(BODIES), max_size=4).map(b''.join)))
        if size and draw(st.integers(0, 3)) == 0:
            body = body + b'0123456789abcdef\r\n' * 100 + draw(st.sampled_from([
                b'', b'QUIT\r\n', b'.\r\n', b'end.\r\nMAIL FROM:<evil@x.org>\r\nQUIT\r\n', b'..\r\nRSET\r\nQUIT\r\n', b'x\r\n']))
        items.append(Item('DATA', b'DATA', content=body, label='DATA[%d]' % len(body)))
        for _ in range(draw(st.integers(0, 2))):
            items.append(draw(st.sampled_from([L['NOOP'], L['RSET'], L['RCPT'], L['DATA'], L['UNKNOWN'], L['GARBAGE'], L['EHLO'],
                                               L['STARTTLS-arg'], L['STARTTLS-arg']])))
    if draw(st.booleans()):
        items.append(L['QUIT'])
    cuts = draw(st.lists(st.lists(st.integers(0, 5000), max_size=10), min_size=2, max_size=2))
    return items, cfg, cuts


@st.composite
def mutated_session(draw):
    items, cfg, cuts = draw(grammar_session())
    items, exps, _ = sm.predict(items, cfg)
    data = bytearray(b''.join(sm.build_stream(items, exps)))
    for _ in range(draw(st.integers(1, 4))):
        if not data:
            break
        how = draw(st.sampled_from(['subst', 'insert', 'delete', 'dup']))
        i = draw(st.integers(0, len(data) - 1))
        if how == 'subst':
            data[i] = draw(st.sampled_from([10, 13, 46, 32, 0, 255, 65]))
        elif how == 'insert':
            data[i:i] = draw(st.sampled_from([b'\r\n', b'\n', b'\r', b'.', b'.\r\n', b'\r\n.\r\n', b'DATA\r\n', b' ', b'\x00',
                                              b'STARTTLS x\r\n', b'. \r\n', b'.\t\r\n']))
        elif how == 'delete':
            del data[i:i + draw(st.integers(1, 4))]
        else:
            j = min(len(data), i + draw(st.integers(1, 20)))
            data[i:i] = data[i:j]
    return bytes(data), cfg, cuts


@st.composite
def boundary_session(draw):
    """Raw streams whose message size is within a few bytes of the SIZE limit, ended by a plain or a white-space padded
    end-of-data line, with commands pipelined behind; only the segmentations are compared."""
    size = 200
    cfg = Config(auth=False, size=size, starttls=False, layer=draw(st.sampled_from(['bare', 'edge'])))
    n = size + draw(st.integers(-6, 6))
    line = draw(st.sampled_from([b'0123456789abcdef\r\n', b'abc.\r\n', b'..x\r\n', b'y\r\n']))
    body = (line * (n // len(line) + 1))[:max(0, n - 2)] + b'\r\n'
    eod = draw(st.sampled_from([b'.\r\n', b'.\r\n', b'. \r\n', b'.\t\r\n', b'.\r\r\n', b'.\n']))
    tail = draw(st.sampled_from([b'NOOP\r\nQUIT\r\n', b'RSET\r\nMAIL FROM:<a@b.c>\r\n', b'', b'QUIT\r\n']))
    data = b'EHLO c\r\nMAIL FROM:<s@x.org>\r\nRCPT TO:<r1@y.org>\r\nDATA\r\n' + body + eod + tail
    cuts = draw(st.lists(st.lists(st.integers(0, 5000), max_size=6), min_size=2, max_size=2))
    return data, cfg, cuts


def has_pipelined_after_data(items, exps):
    for k, (it, e) in enumerate(zip(items, exps)):
        if it.kind == 'DATA' and e.get('sends_content') and k + 1 < len(items):
            return True
    return False


def run_shard(ctx):
    if ctx.thorough:
        from vf import fuzz
        fuzz.run(ctx, ID, 120, FUZZ_SEEDS)
    def one_grammar(v):
        items, cfg, cuts = v
        items2, exps, model = sm.predict(items, cfg)
        lines = sm.build_stream(items2, exps)
        data = b''.join(lines)
        f = judge(data, lines, cfg, cuts, items2, exps, model)
        ctx.record((cfg.key(), data), has_pipelined_after_data(items2, exps),
                   labels=['grammar', 'layer=' + cfg.layer, 'size-limit' if cfg.size else 'no-size-limit'],
                   case=lambda: {'kind': 'grammar', 'cfg': cfg.json(), 'items': [i.json() for i in items], 'cuts': cuts,
                                 'readable': ' | '.join(i.label for i in items)}, failures=f)
    hyp.drive(ctx, grammar_session(), one_grammar, ctx.n(2500, 60000))

    def one_mutated(v):
        data, cfg, cuts = v
        f = judge(data, [], cfg, cuts)
        ctx.record((cfg.key(), data), b'DATA' in data.upper() and not data.upper().rstrip().endswith(b'.'),
                   labels=['mutated', 'layer=' + cfg.layer],
                   case=lambda: {'kind': 'bytes', 'cfg': cfg.json(), 'data': data.hex(), 'cuts': cuts}, failures=f)
    hyp.drive(ctx, mutated_session(), one_mutated, ctx.n(2500, 60000), salt=1)

    def one_boundary(v):
        data, cfg, cuts = v
        f = judge(data, [], cfg, cuts)
        ctx.record((cfg.key(), data), True, labels=['size-boundary', 'layer=' + cfg.layer],
                   case=lambda: {'kind': 'bytes', 'cfg': cfg.json(), 'data': data.hex(), 'cuts': cuts}, failures=f)
    hyp.drive(ctx, boundary_session(), one_boundary, ctx.n(600, 12000), salt=2)


def replay(case):
    cfg = Config.from_json(case['cfg'])
    cuts = [[int(c) for c in l] for l in case.get('cuts', []) if isinstance(l, list)]
    if case.get('kind') == 'grammar':
        items = [Item.from_json(d) for d in case['items'] if d.get('kind')]
        if not items:
            return []
        items2, exps, model = sm.predict(items, cfg)
        lines = sm.build_stream(items2, exps)
        return judge(b''.join(lines), lines, cfg, cuts, items2, exps, model)
    return judge(bytes.fromhex(case['data']), [], cfg, cuts)


# -- coverage-guided tier (atheris) ---------------------------------------------------------------------

def fuzz_target(data):
    if len(data) < 4:
        return None, []
    cfg = Config(auth=bool(data[0] & 1), size=(1000 if data[0] & 2 else None), starttls=False,
                 layer='edge' if data[0] & 4 else 'bare')
    cuts = [[c * 3 for c in data[1:3]], [data[3] * 7]]
    stream = data[4:]
    return {'kind': 'bytes', 'cfg': cfg.json(), 'data': stream.hex(), 'cuts': cuts}, judge(stream, [], cfg, cuts)


FUZZ_SEEDS = [b'\x00\x05\x09\x03EHLO c\r\nMAIL FROM:<a@b>\r\nRCPT TO:<c@d>\r\nDATA\r\nx\r\n.\r\nNOOP\r\nQUIT\r\n',
              b'\x02\x01\x02\x03EHLO c\r\nMAIL FROM:<a@b>\r\nRCPT TO:<c@d>\r\nDATA\r\n.\r\nRSET\r\n',
              b'\x04\x07\x08\x01HELO c\r\nMAIL FROM:<>\r\nRCPT TO:<c@d>\r\nDATA\r\n..\r\n.\r\nQUIT\r\n']
