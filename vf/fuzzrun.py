"""Coverage-guided tier: `python -m vf.fuzzrun <ID> <outdir> [libFuzzer args]` (atheris on libFuzzer).

The property module provides fuzz_target(data: bytes) -> (case, [(sig, msg)]): the bytes are decoded into a structured
case and judged by the same oracle as the generated tiers.  Failing cases are written to <outdir> (one file per
signature, smallest input kept) and fuzzing continues; nothing is reported by crashing.
"""
import os
import sys
import json
import hashlib
import importlib


def main(argv):
    pid, outdir = argv[1], argv[2]
    os.makedirs(outdir, exist_ok=True)
    here = os.path.dirname(os.path.dirname(os.path.abspath(__file__)))
    sys.path.insert(0, here)
    import vf  # noqa (puts the repository under test and .deps on sys.path)
    import atheris
    import logging
    logging.disable(logging.CRITICAL)
    with atheris.instrument_imports(include=['slimta']):
        mod = importlib.import_module('vf.props.' + pid.lower())
    best = {}
    count = [0]

    def one(data):
        count[0] += 1
        case, fails = mod.fuzz_target(data)
        for sig, msg in fails:
            size = len(data)
            if sig not in best or size < best[sig]:
                best[sig] = size
                name = hashlib.sha1(sig.encode()).hexdigest()[:12] + '.json'
                with open(os.path.join(outdir, name), 'w') as f:
                    json.dump({'signature': sig, 'message': msg, 'case': case}, f)
        if count[0] % 200 == 0:
            with open(os.path.join(outdir, 'executions'), 'w') as f:
                f.write(str(count[0]))

    import atexit
    atheris.Setup([argv[0]] + argv[3:], one)
    try:
        atheris.Fuzz()
    finally:
        with open(os.path.join(outdir, 'executions'), 'w') as f:
            f.write(str(count[0]))


if __name__ == '__main__':
    main(sys.argv)
