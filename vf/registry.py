"""Table of registered checks (source of MANIFEST.json, see tools/gen_manifest.py)."""

FIX_COMMITS = ['c5b9684 (C05 DataReader EOD==0)', 'c3bb002 (C17 ESC prefix on 1xx/3xx)', '832276a (C18 NUL in PROXY v1 address)',
               '57b9489 (C20 flatten raising on over-long 8-bit header lines)', '72f4152 (C07 421 after message data)',
               '443d88b (C07/C08 transaction survives STARTTLS)', '32a1f33 (C09 size limit segmentation-dependent / oversize content executed)',
               '23d724d + 0580462 (C03/C01 delivered-index history, re-queue before marks stored)', '866c7e1 (C01 dict shadowing)',
               '14c3a79 + f3319b7 (C12 flush)', '8c3f97c (C12 schedule list mutated during blocking spawn)', 'b06082a (C15 redis load)', '4831a3d (C15 cloud attempts)',
               '927adda (C15/C03 DictStorage over shelve)', 'bd8a6c6 (C03 active until removed)',
               '6d62944 (C02 edges results[0])', '476db38 (C02 ProxyQueue per-recipient failures)',
               '044506a + a782ee8 (C11 pipe relays)', '6c9af79 (C11/C17 invalid reply code)', '511778e (C11 mixed-class rejected recipients)',
               '19de51f (C11 HttpRelay never sets a result)', '1cf38fb + ecb2777 (C08 STARTTLS injection, server and client)',
               '81dab84 (C08 AUTH without argument)', '3808adf (C06 quoted-pairs in paths)', '5259bd2 (C06 HttpRelay connection reuse)',
               '2cbb9ad (C14 end-of-data reply outside data timeout)', '5450342 + 93f16c4 (C14 unbounded TLS close, relay and edge)',
               '656a561 (C14 AUTH exchange outside the command timeout)', 'c8d76aa (C14 HttpRelay drain of the previous response outside the timeout)',
               '891cd1e + b47e514 (C14 unbounded TLS handshake, server and tls_immediately relay client)',
               '02ec277 (C10 code-only reply line rejected)', 'e83b33d (C08 authentication survives STARTTLS)',
               'ca9b539 (C13 configured bounce queue ignored)', 'd276ab6 (C07/C02/C06 RCPT answered 251 dropped)', '85019a2 (C07 edge keeps the rejected transaction)',
               '9795c05 (C07 session torn down after a non-UTF-8 argument; refined by bc3c258)', '1f3e369 (C11 X-Smtp-Reply with command parameter)',
               '9b39673 + 9263ee9 (C06 WsgiEdge loses the reply: bytes command, multi-line message)',
               '7526a46 (C03/C13 repeated recipient address settled only once)', '2ebabf2 (C17 newline_first replies not parsed back)',
               'ed68b2b + 5b0622d + 97a73d4 (C18 lax v1 ports, unassigned v2 command/transport, LOCAL with short block)',
               '77d6ad8 (C20 received header lines re-folded by flatten)', '4905f04 (C20 stdlib IndexError on malformed MIME parameters)',
               'f101e29 (C12/C03 message claimed only after the blocking read in _dequeue)',
               'acac478 (C19/C14/C11 endless reconnect loop after an unsolicited 421 behind the greeting)',
               'ff1b8a2 (C11 1xx/3xx replies taken as acceptance)', '51e5bd9 (C11 X-Smtp-Reply with an invalid code)', '0f16e12 + 96ada20 (C11 AUTH: unknown advertised mechanism, non-base64 challenge)',
               'f8f0137 (C10 stale owed reply after an unsendable address)',
               '6c59890 + 8eac0a1 (C11 attempt raising UnicodeEncodeError / FileNotFoundError)',
               '223ed4f (C14 server writes outside every timeout)', '9b2bc54 (C14 HTTPS relay close before result, unbounded)', '7d79bbe (C14 PROXY header read outside every timeout)', 'e230420 (C06 WsgiEdge non-latin-1 reply text)',
               '6997a1c (C13 all recipients rejected with different 5xx replies collapsed into one)',
               '106ab19 (C13 bounce embeds the 7-bit converted message)', '3059694 (C18 socket error during the header read escapes)', '735dfbb (C12 scheduler sleeps by a stale clock reading)',
               'ebf8fef (C03 enqueue() re-attempts a message the scheduler already handled)',
               '925db17 (C06 interrupted send repeated by the next flush)',
               '37be052 (C12 stale schedule entry of a message enqueue() attempts itself)',
               'c6ba4dd (C11 AUTH keyword without mechanisms)', '38dc11a (C11 non-ASCII SASL mechanism name)',
               'f879e3b (C11 one SASL challenge too many)', '0d7f2d5 (C11 null MX / unconnectable exchange name)',
               '1965fff (C02 relay error carrying a non-error reply passed on by the edges)',
               'b38cc67 (C13 retries-exhausted note written into the relay\'s own reply object)',
               'df6862c (C10 phantom reply after a greeting identity that cannot be sent)',
               '0629b4a (C14 quadratic command-line pattern)', '90066a9 (C14 quadratic EHLO-line pattern)',
               '10439e5 (C11 surplus HTTP response taken for the answer to the next request)',
               'f922424 (C08 lenient base64 decoding of AUTH responses)',
               '1eac55c (C19 HttpRelay attempt stranded when its client fails inside a request)']

ENGINES = [
    {'name': 'runner', 'path': 'vf/runner.py', 'serves_properties': [],
     'kind_free_text': 'sharded case runner: 16 forked workers, seeds from VERIF_SEED, signature bucketing, '
                       'JSON delta-debugging of failing cases into replay files, known-findings handling, evidence'},
    {'name': 'smtp-session-model', 'path': 'vf/smtpmodel.py', 'serves_properties': ['C07', 'C09'],
     'kind_free_text': 'synchronous Server/SmtpEdge sessions on a scripted socket, verdicts encoded in command arguments, reference SMTP automaton, lock-step judge'},
    {'name': 'queue-machine', 'path': 'vf/qm.py', 'serves_properties': ['C01', 'C03', 'C12', 'C13'],
     'kind_free_text': 'real slimta Queue + real storage backend + scripted relay; every storage/relay call parks on a harness gate, scheduler on a virtual clock; JSON action histories interpreted robustly, reference model, fair drain'},
    {'name': 'storage-machine', 'path': 'vf/props/c15.py', 'serves_properties': ['C15'],
     'kind_free_text': 'operation-sequence interpreter over the real backends (vf/backends.py: RESP fake redis, in-memory object store, shelve-like mapping) with a reference dict store'},
    {'name': 'edge-fault-table', 'path': 'vf/props/c02.py', 'serves_properties': ['C02'],
     'kind_free_text': 'edges over Queue+FaultStore / ProxyQueue+scripted relay with an event log and harness-gated slow writes'},
    {'name': 'crash-point-snapshots', 'path': 'vf/props/c04.py', 'serves_properties': ['C04'],
     'kind_free_text': 'recording proxies on slimta.diskstorage.{os,mkstemp,aio_write} that copy the directories before every file-system effect'},
    {'name': 'scripted-downstreams', 'path': 'vf/peers.py', 'serves_properties': ['C11'],
     'kind_free_text': 'StagePeer: in-memory reactive SMTP/LMTP server answering each protocol stage per script and recording what it accepted; HTTP peer and resolver stub in vf/props/c11_http.py'},
    {'name': 'tls-socketpair', 'path': 'vf/props/c08.py', 'serves_properties': ['C08'],
     'kind_free_text': 'real slimta Server / SmtpEdge / Client over gevent socketpairs with real TLS (committed self-signed certificate), harness-side lock-step wire reader'},
    {'name': 'relay-to-edge-hop', 'path': 'vf/props/c06.py', 'serves_properties': ['C06'],
     'kind_free_text': 'StaticSmtpRelay -> SmtpEdge.handle over gevent socketpairs (Server subclass with generated extension set), HttpRelay -> WsgiEdge under gevent WSGIServer on loopback'},
    {'name': 'stalling-peers', 'path': 'vf/props/c14.py', 'serves_properties': ['C14'],
     'kind_free_text': 'greenlet-driven peers on real socketpairs / loopback that stall or trickle at a chosen protocol stage; all cases of a shard run concurrently'},
    {'name': 'gated-pool', 'path': 'vf/props/c19.py', 'serves_properties': ['C19'],
     'kind_free_text': 'RelayPool with harness-gated clients; slimta.relay.pool.Timeout substituted by a virtual-clock Timeout; DelayPeer greenlets for the real tier'},
    {'name': 'reactive-peer', 'path': 'vf/props/c10.py', 'serves_properties': ['C10'],
     'kind_free_text': 'in-memory downstream that parses what the client sends and only then makes the scripted replies readable; a read when nothing is owed raises'},
    {'name': 'scripted-socket', 'path': 'vf/transport.py', 'serves_properties': ['C05', 'C17'],
     'kind_free_text': 'in-memory socket whose recv() segmentation is a generated input'},
]

CHECKS = {
    'C05': {
        'engine': 'scripted-socket',
        'level': 'exploration',
        'technique': 'property-based testing: exhaustive small-alphabet enumeration + Hypothesis random bytes, round-trip oracle',
        'text': 'DataSender output is fed to DataReader on a scripted socket; content must equal the original (plus CRLF rule), '
                'leftover bytes must equal the trailer, and no recv may be issued past the end-of-data segment, for every message over '
                '{.,CR,LF,a} up to length 7/9 under all listed segmentations and for random byte strings up to 12 KB',
        'design_ref': 'DESIGN.md section 2 C05',
        'note': 'sender parts cut only after LF; bounded length for the exhaustive part; absence beyond the bounds is not established',
    },
}

CHECKS['C17'] = {
    'engine': 'scripted-socket',
    'level': 'exploration',
    'technique': 'property-based testing: Hypothesis round trip Reply.send -> IO.recv_reply/Reply.recv under generated cuts; exhaustive malformed strings vs reference line grammar',
    'text': 'replies rendered by the library are parsed back (IO level and Reply level) to the same code and CRLF-normalised text with exact '
            'consumption under generated segmentations; every string over a 9-letter alphabet up to length 6/7 is classified by a reference '
            'grammar as valid / malformed / incomplete and the parser must return / raise BadReply / ask for more data accordingly',
    'design_ref': 'DESIGN.md section 2 C17',
    'note': 'codes outside 1xx-5xx and a bare "ddd" line are gray at IO level; length-bounded exhaustive part',
}
CHECKS['C18'] = {
    'engine': 'runner',
    'level': 'exploration',
    'technique': 'property-based testing: differential against a strict reference PROXY parser, generated short reads, exhaustive single-byte substitutions',
    'text': 'builder-generated valid v1/v2 headers (+payload) through short-read sockets into all three mix-ins must yield exactly the encoded '
            'addresses and consume exactly the header; every single-byte substitution / truncation of 8 sample headers and random corruptions must '
            'end with the invalid address (or a dropped LOCAL connection), no escaping exception, and bounded consumption',
    'design_ref': 'DESIGN.md section 2 C18',
    'note': 'int()/inet_pton leniency and unassigned v2 nibbles are gray; reference parser written from the HAProxy spec is trusted',
}
CHECKS['C20'] = {
    'engine': 'runner',
    'level': 'exploration',
    'technique': 'property-based testing: Hypothesis structured messages vs reference field parser (round trip, copy, pickle, fixed point), arbitrary bytes never raise, 7-bit conversion decoded by stdlib',
    'text': 'well-formed header blocks + arbitrary bodies must flatten to the identical body and the same (name, value) field list; copy / pickle / re-parse '
            'agree; arbitrary byte strings never raise; 7-bit conversion yields ASCII that decodes to the same text or refuses without an encoder',
    'design_ref': 'DESIGN.md section 2 C20',
    'note': 'field bodies exclude C0 controls that str.splitlines treats as line breaks; stdlib email package trusted as decoder',
}
CHECKS['C16'] = {
    'engine': 'runner',
    'level': 'exploration',
    'technique': 'property-based testing: Hypothesis policy chains through Queue.enqueue, conservation multiset vs independent first-match rewriter, aliasing probe',
    'text': 'generated recipient lists x chains of the built-in policies (with repetition, plus a policy returning its input) are run through '
            'Queue.enqueue with a recording store; the written envelopes must carry the (rewritten) recipients exactly once, same sender/body, '
            'original header fields in order, Date/Message-Id added only when absent, one Received first per policy, and share no mutable state',
    'design_ref': 'DESIGN.md section 2 C16',
    'note': 'a forwarding rule rewriting to the empty string is gray',
}
CHECKS['C07'] = {
    'engine': 'smtp-session-model',
    'level': 'exploration',
    'technique': 'model-based testing: reference SMTP automaton vs real Server/SmtpEdge on a scripted socket; exhaustive sequences <=2/3 from 13 abstract states + Hypothesis sessions',
    'text': 'every command sequence up to length 2 (quick) / 3 (thorough) over a 53-letter command x verdict alphabet from each of 13 abstract '
            'session states, plus random sessions up to 25 commands, on both handler layers; replies and the callback trace are compared in lock '
            'step with a reference automaton written from the statement (callbacks only when enabled, 5xx without callback otherwise, transaction '
            'reset points, one final reply per command, nothing after 221/421, envelopes reaching the queue)',
    'design_ref': 'DESIGN.md section 2 C07',
    'note': 'which 5xx code, state after a rejected DATA command, extension-dependent commands after HELO and the AUTH exchange itself are gray',
}
CHECKS['C09'] = {
    'engine': 'smtp-session-model',
    'level': 'exploration',
    'technique': 'metamorphic property-based testing: one stream under 6 segmentations must give identical output/callbacks/envelopes; grammar streams also vs reference automaton',
    'text': 'grammar-built and byte-mutated session streams (empty bodies, lone dots, command-looking lines, bare LF, over the SIZE limit, pipelined) '
            'are run in one burst, per line, per byte, cut at every CR/LF and at random cuts; output bytes, callback arguments (incl. message data) '
            'and queued envelopes must be identical and, for grammar streams, equal to the reference automaton (content never executed, commands never swallowed)',
    'design_ref': 'DESIGN.md section 2 C09',
    'note': 'message sizes kept 20 bytes away from the SIZE limit; every segmentation ends with EOF',
}
CHECKS['C10'] = {
    'engine': 'reactive-peer',
    'level': 'exploration',
    'technique': 'model-based property testing: Hypothesis call sequences on Client/LmtpClient against a reactive in-memory peer with a generated reply script; reference pairing by slot index',
    'text': 'valid call sequences (1..3 transactions, pipelined or not, SMTP and LMTP) against a peer that owes a scripted reply only after it has parsed '
            'the command; after every synchronising call each returned Reply must hold the script entry of its own slot; a recv() when nothing '
            'is owed is a violation; LMTP send_data must return exactly the 2xx recipients in order',
    'design_ref': 'DESIGN.md section 2 C10',
    'note': 'the peer is a conforming server answering in order; callers never abandon a transaction without DATA or RSET',
}
CHECKS['C01'] = {
    'engine': 'queue-machine',
    'level': 'exploration',
    'technique': 'model-based stateful property testing: gated real Queue + backend + scripted relay on virtual time vs reference model; exhaustive outcome/sequence enumeration + Hypothesis histories + fair drain',
    'text': 'accepted mail reaches a final disposition: reference model of per-recipient states vs the real Queue on real backends; every relay attempt must carry exactly the outstanding recipients, a message is never removed with outstanding recipients, and after a fair drain storage is empty and every recipient delivered or failed (bounce expected)',
    'design_ref': 'DESIGN.md sections 1.4 and 2 C01',
    'note': 'schedules explored at the granularity of storage/relay/timer gates; "eventually" judged by a bounded fair drain; known finding: bounded-pool deadlock (known_findings.json)',
}
CHECKS['C03'] = {
    'engine': 'queue-machine',
    'level': 'exploration',
    'technique': 'model-based stateful property testing: gated real Queue + backend + scripted relay on virtual time vs reference model; exhaustive outcome/sequence enumeration + Hypothesis histories + fair drain',
    'text': 'no relay attempt includes a recipient the model has settled (on any backend, over any number of partial rounds, after announcements / flush / clean restarts), and no two attempts of one message are open at the same time',
    'design_ref': 'DESIGN.md sections 1.4 and 2 C03',
    'note': 'schedules explored at the granularity of storage/relay/timer gates; "eventually" judged by a bounded fair drain; known finding: bounded-pool deadlock (known_findings.json)',
}
CHECKS['C12'] = {
    'engine': 'queue-machine',
    'level': 'exploration',
    'technique': 'model-based stateful property testing: gated real Queue + backend + scripted relay on virtual time vs reference model; exhaustive outcome/sequence enumeration + Hypothesis histories + fair drain',
    'text': 'no attempt starts before the due time last written to storage (unless flushed); at every quiescent point each stored message known to the running queue is in flight or has a scheduler timer not later than its due time; flush() returns; after the drain nothing is forgotten',
    'design_ref': 'DESIGN.md sections 1.4 and 2 C12',
    'note': 'schedules explored at the granularity of storage/relay/timer gates; "eventually" judged by a bounded fair drain; known finding: bounded-pool deadlock (known_findings.json)',
}
CHECKS['C13'] = {
    'engine': 'queue-machine',
    'level': 'exploration',
    'technique': 'model-based stateful property testing: gated real Queue + backend + scripted relay on virtual time vs reference model; exhaustive outcome/sequence enumeration + Hypothesis histories + fair drain',
    'text': 'the multiset of bounces produced (grouped by failure reply, exhaustion suffix) equals the model, each addressed only to the original sender, naming exactly the failed group, quoting the reply and embedding the original header block (and body) unchanged; none for an empty sender; each enqueued exactly once; no bounce loops',
    'design_ref': 'DESIGN.md sections 1.4 and 2 C13',
    'note': 'schedules explored at the granularity of storage/relay/timer gates; "eventually" judged by a bounded fair drain; known finding: bounded-pool deadlock (known_findings.json)',
}
CHECKS['C15'] = {
    'engine': 'storage-machine',
    'level': 'exploration',
    'technique': 'model-based stateful property testing: Hypothesis operation sequences on each real backend vs a reference dict store, overlapped pairs in two greenlets',
    'text': 'operation sequences over 1..5 messages on dict, dict-over-shelve, disk (pyaio), redis (real redis-py client against an in-process RESP server) and '
            'cloud (in-memory object store mirroring aws.py) are compared step by step with a reference store: distinct str ids, get returns sender/content/'
            'recipients-minus-delivered/attempts, load lists exactly the live ids with latest timestamps, removed messages are gone, overlapped operations on different ids do not disturb each other',
    'design_ref': 'DESIGN.md section 2 C15',
    'note': 'fidelity of the fake redis server and object store is trusted; exception type of get-after-remove is gray',
}
CHECKS['C02'] = {
    'engine': 'edge-fault-table',
    'level': 'fault_enumeration',
    'technique': 'fault enumeration + property-based testing: exhaustive (envelope count x failing write x fault kind x edge x policy) table and Hypothesis multi-fault cases; invariant over an event log',
    'text': 'SmtpEdge sessions and WsgiEdge requests over a real Queue with policy chains and a fault-injecting store (QueueError with 4xx/5xx/no reply, other '
            'exception, slow gated write) and over ProxyQueue with every relay result shape: a 2xx reply requires every envelope written ok (every recipient relayed) '
            'before the reply; any failure requires 4xx/5xx; no success reply may be visible while a write gate is still closed',
    'design_ref': 'DESIGN.md section 2 C02',
    'note': 'custody = QueueStorage.write returned; slow writes are harness gates; HTTP leg driven through WsgiEdge.__call__ with a synthetic environ',
}
CHECKS['C04'] = {
    'engine': 'crash-point-snapshots',
    'level': 'fault_enumeration',
    'technique': 'crash-point enumeration over Hypothesis operation histories: snapshot before every file-system effect, recovery by fresh DiskStorage + fresh Queue vs reference model',
    'text': 'for generated histories of DiskStorage operations every crash point (before mkstemp, each aio chunk write, rename, unlink, and after the last) is '
            'materialised as a directory snapshot; a fresh DiskStorage must load() without raising and return every acknowledged, not-yet-removed message with '
            'sender, content, outstanding recipients and attempts of the pre- or post-state of the operation in flight, and a fresh Queue must re-attempt it',
    'design_ref': 'DESIGN.md section 2 C04',
    'note': 'process death between atomic file-system effects (no power-loss / fsync model); sequential operations',
}
CHECKS['C11'] = {
    'engine': 'scripted-downstreams',
    'level': 'fault_enumeration',
    'technique': 'fault enumeration + property-based testing: real relays against scripted downstreams (in-memory SMTP/LMTP peer, generated /bin/sh delivery programs, raw HTTP peer, stub resolver); reference decision from the script',
    'text': 'every single fault (stage x outcome incl. malformed line, out-of-range code, disconnect, reset) x PIPELINING x 1..3 recipients x first/reused '
            'connection for StaticSmtpRelay/StaticLmtpRelay, random multi-fault scripts, pipe relays over exit status x output shape x per_recipient, HttpRelay over '
            'status x reply header x connection faults, MxSmtpRelay over resolver answers: a recipient is reported delivered only if nothing applicable went wrong and '
            'the peer recorded acceptance; failure classes follow 4xx/5xx; the attempt always ends with a result or a RelayError raised (never returned, never another type, never a hang)',
    'design_ref': 'DESIGN.md section 2 C11',
    'note': 'STARTTLS over a stub context (same channel); HTTP error without reply header is gray; reference decision written from the property statement',
}
CHECKS['C08'] = {
    'engine': 'tls-socketpair',
    'level': 'exploration',
    'technique': 'property-based testing over real TLS handshakes on socketpairs: lock-step reply/command pairing, callback trace with encryption flag, exhaustive AUTH table with credential equality',
    'text': 'generated plaintext prefixes, bytes pipelined behind STARTTLS (server) or behind the 220 reply (client) and commands over TLS: over TLS exactly one '
            'reply per command in order, no injected command in the callback trace, every later callback encrypted, session back in its just-greeted state, STARTTLS no '
            'longer offered; AUTH table over mechanism x argument shape x position x TLS mode x Unicode credentials x verdict: refused positions give 5xx without '
            'callback, malformed lines give 5xx and the session goes on, authed iff the application left 235, credentials seen = credentials sent',
    'design_ref': 'DESIGN.md section 2 C08',
    'note': 'known finding: PLAIN/LOGIN accepted without TLS (pysasl 1.x has no insecure attribute; pinned test test_auth forbids the repair); 3 s lock-step guard per reply',
}
CHECKS['C06'] = {
    'engine': 'relay-to-edge-hop',
    'level': 'exploration',
    'technique': 'round-trip property-based testing: real relay client -> real library edge over socketpair / loopback, envelope and reply compared end to end',
    'text': 'generated envelopes (null, dot-atom, quoted local parts with quoted-pairs, UTF-8 addresses, C20 header blocks, arbitrary bodies) are sent by '
            'StaticSmtpRelay to SmtpEdge (generated extension sets, STARTTLS with real TLS, HELO fallback, rejected RCPTs, queue verdicts, connection reuse), by '
            'HttpRelay to WsgiEdge under gevent WSGIServer, and by StaticLmtpRelay to a reference sink: sender, accepted recipients in order, header block and body '
            'must arrive byte-identical (modulo final CRLF) and the relay result must be the reply the edge gave; Client.ehlo() must see exactly the advertised extensions',
    'design_ref': 'DESIGN.md section 2 C06',
    'note': 'UTF-8 addresses only with SMTPUTF8; 8-bit bodies to 7-bit servers are expected to fail with 5.6.3; LMTP leg ends in a harness sink',
}
CHECKS['C14'] = {
    'engine': 'stalling-peers',
    'level': 'fault_enumeration',
    'technique': 'fault enumeration in real time: stalling / trickling peers at every stage x configuration, bounded-termination oracle with a generous watchdog',
    'text': 'every stall point of an SMTP server session (before any byte, after each command, mid-line, inside DATA, trickling forever; plain and TLS) and of a relay '
            'attempt (connect, banner, EHLO/LHLO, STARTTLS, second EHLO, AUTH, MAIL, RCPT, DATA, after end-of-data, RSET, QUIT; silent or trickling; SMTP/LMTP; '
            'PIPELINING on/off), a sleeping delivery program and a silent/trickling HTTP peer: the session must end with a 421 and the attempt with a transient error, '
            'and the connection must be released, before a watchdog of max(2 s, 20 x timeout) (re-checked alone with 5 s)',
    'design_ref': 'DESIGN.md section 2 C14',
    'note': 'wall clock; safety-only oracle (a delay shorter than the watchdog is invisible); timeouts 0.05-0.4 s',
}
CHECKS['C19'] = {
    'engine': 'gated-pool',
    'level': 'exploration',
    'technique': 'stateful property-based testing: real RelayPool/RelayPoolClient/BlockingDeque with gated client loops on a virtual clock (tier A) and real StaticSmtpRelay against delaying peers (tier B); invariants at quiescence + fair drain',
    'text': 'tier A: generated interleavings of attempt() calls, client gate releases (deliver / fail / fail-and-exit / requeue-and-exit) and idle expiry for pool '
            'sizes 1..3 and unbounded: live clients never exceed the size, every attempt gets the result of its own envelope, len(queue) equals the semaphore counter, '
            'no request waits while no client exists, after a fair drain every attempt has returned. tier B: up to 8 concurrent real deliveries with delays, refused '
            'connections, 421 while idle, mid-transaction 4xx: open connections <= pool size, own result, one message at a time per connection, RSET after a failure',
    'design_ref': 'DESIGN.md section 2 C19',
    'note': 'tier B is real time (millisecond delays, 10 s watchdog); tier A clients follow the RelayPoolClient contract',
}

NOT_APPLICABLE = {}
