"""Table of registered checks (source of MANIFEST.json, see tools/gen_manifest.py)."""

FIX_COMMITS = ['c5b9684 (C05 DataReader EOD==0)']

ENGINES = [
    {'name': 'runner', 'path': 'vf/runner.py', 'serves_properties': [],
     'kind_free_text': 'sharded case runner: 16 forked workers, seeds from VERIF_SEED, signature bucketing, '
                       'JSON delta-debugging of failing cases into replay files, known-findings handling, evidence'},
    {'name': 'scripted-socket', 'path': 'vf/transport.py', 'serves_properties': ['C05'],
     'kind_free_text': 'in-memory socket whose recv() segmentation is a generated input'},
]

CHECKS = {
    'C05': {
        'engine': 'scripted-socket',
        'level': 'exploration',
        'technique': 'property-based testing: exhaustive small-alphabet enumeration + Hypothesis random bytes, round-trip oracle',
        'text': 'DataSender output is fed to DataReader on a scripted socket; content must equal the original (plus CRLF rule), '
                'leftover bytes must equal the trailer, and no recv may be issued past the end-of-data segment, for every message over '
                '{.,CR,LF,a} up to length 7/9 under all listed segmentations and for random byte strings up to 12 KB',
        'design_ref': 'DESIGN.md section 2 C05',
        'note': 'sender parts cut only after LF; bounded length for the exhaustive part; absence beyond the bounds is not established',
    },
}

NOT_APPLICABLE = {}
