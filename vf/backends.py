"""Substrates for the redis and cloud queue-storage backends (harness side).

* FakeRedisServer: an in-process RESP2/RESP3 server on loopback, driven by the *real*
  redis-py client that slimta.redisstorage uses.
* MemObjectStore / MemMessageQueue: in-memory objects implementing the duck type that
  slimta.cloudstorage.CloudStorage documents (semantics mirror cloudstorage/aws.py:
  pickled envelope, JSON metadata, KeyError for unknown ids).
"""
import json
import uuid
import pickle
import fnmatch
import collections

import gevent
from gevent.server import StreamServer
from gevent.event import Event


# ---------------------------------------------------------------------------------------------
# redis
# ---------------------------------------------------------------------------------------------

class WrongType(Exception):
    pass


class FakeRedisServer(object):
    def __init__(self):
        self.data = {}           # key(bytes) -> dict (hash) | list
        self.changed = Event()
        self.server = StreamServer(('127.0.0.1', 0), self._handle)
        self.server.start()
        self.port = self.server.server_port
        self.conns = set()
        self.commands = 0

    def stop(self):
        self.server.stop()
        for s in list(self.conns):
            try:
                s.close()
            except Exception:
                pass

    # -- RESP encoding ----------------------------------------------------------
    def _enc(self, v, proto):
        if v is None:
            return b'_\r\n' if proto >= 3 else b'$-1\r\n'
        if isinstance(v, bool):
            return b':1\r\n' if v else b':0\r\n'
        if isinstance(v, int):
            return b':%d\r\n' % v
        if isinstance(v, bytes):
            return b'$%d\r\n%s\r\n' % (len(v), v)
        if isinstance(v, str):
            return b'+' + v.encode() + b'\r\n'
        if isinstance(v, Exception):
            return b'-' + str(v).encode() + b'\r\n'
        if isinstance(v, dict):
            if proto >= 3:
                out = b'%%%d\r\n' % len(v)
            else:
                out = b'*%d\r\n' % (2 * len(v))
            for k, x in v.items():
                out += self._enc(k, proto) + self._enc(x, proto)
            return out
        if isinstance(v, (list, tuple)):
            return b'*%d\r\n' % len(v) + b''.join(self._enc(x, proto) for x in v)
        raise TypeError(v)

    def _read_command(self, f):
        line = f.readline()
        if not line:
            return None
        if not line.startswith(b'*'):
            return line.split()
        n = int(line[1:])
        args = []
        for _ in range(n):
            hdr = f.readline()
            ln = int(hdr[1:])
            data = f.read(ln + 2)[:-2]
            args.append(data)
        return args

    def _handle(self, sock, addr):
        self.conns.add(sock)
        f = sock.makefile('rb')
        state = {'proto': 2, 'multi': None}
        try:
            while True:
                cmd = self._read_command(f)
                if cmd is None:
                    return
                self.commands += 1
                name = cmd[0].upper()
                if state['multi'] is not None and name not in (b'EXEC', b'DISCARD'):
                    state['multi'].append(cmd)
                    sock.sendall(b'+QUEUED\r\n')
                    continue
                if name == b'MULTI':
                    state['multi'] = []
                    sock.sendall(b'+OK\r\n')
                    continue
                if name == b'EXEC':
                    queued, state['multi'] = state['multi'], None
                    results = [self._exec_safe(c, state, sock) for c in queued]
                    sock.sendall(self._enc(results, state['proto']))
                    continue
                res = self._exec_safe(cmd, state, sock)
                sock.sendall(self._enc(res, state['proto']))
        except (OSError, ValueError):
            return
        finally:
            self.conns.discard(sock)
            try:
                sock.close()
            except Exception:
                pass

    def _exec_safe(self, cmd, state, sock):
        try:
            return self._exec(cmd, state, sock)
        except WrongType:
            return Exception('WRONGTYPE Operation against a key holding the wrong kind of value')
        except Exception as e:
            return Exception('ERR %s' % e)

    def _hash(self, key, create=False):
        v = self.data.get(key)
        if v is None:
            if create:
                v = self.data[key] = collections.OrderedDict()
            return v
        if not isinstance(v, dict):
            raise WrongType()
        return v

    def _list(self, key, create=False):
        v = self.data.get(key)
        if v is None:
            if create:
                v = self.data[key] = []
            return v
        if not isinstance(v, list):
            raise WrongType()
        return v

    def _exec(self, cmd, state, sock):
        name = cmd[0].upper()
        a = cmd[1:]
        if name == b'HELLO':
            if a and a[0] in (b'2', b'3'):
                state['proto'] = int(a[0])
            return collections.OrderedDict([(b'server', b'redis'), (b'version', b'7.0.0'), (b'proto', state['proto']),
                                            (b'id', 1), (b'mode', b'standalone'), (b'role', b'master'), (b'modules', [])])
        if name in (b'CLIENT', b'SELECT', b'AUTH'):
            return 'OK'
        if name == b'PING':
            return 'PONG'
        if name == b'HSETNX':
            h = self._hash(a[0], True)
            if a[1] in h:
                return 0
            h[a[1]] = a[2]
            return 1
        if name in (b'HSET', b'HMSET'):
            h = self._hash(a[0], True)
            added = 0
            for i in range(1, len(a) - 1, 2):
                if a[i] not in h:
                    added += 1
                h[a[i]] = a[i + 1]
            return 'OK' if name == b'HMSET' else added
        if name == b'HGET':
            h = self._hash(a[0])
            return None if h is None else h.get(a[1])
        if name == b'HMGET':
            h = self._hash(a[0]) or {}
            return [h.get(f) for f in a[1:]]
        if name == b'HINCRBY':
            h = self._hash(a[0], True)
            v = int(h.get(a[1], b'0')) + int(a[2])
            h[a[1]] = b'%d' % v
            return v
        if name == b'DEL':
            n = 0
            for k in a:
                if k in self.data:
                    del self.data[k]
                    n += 1
            return n
        if name == b'KEYS':
            pat = a[0].decode('latin-1')
            return [k for k in self.data if fnmatch.fnmatchcase(k.decode('latin-1'), pat)]
        if name == b'RPUSH':
            l = self._list(a[0], True)
            l.extend(a[1:])
            self.changed.set()
            self.changed.clear()
            return len(l)
        if name == b'LLEN':
            l = self._list(a[0])
            return len(l or [])
        if name == b'BLPOP':
            keys = a[:-1]
            while True:
                for k in keys:
                    l = self._list(k)
                    if l:
                        v = l.pop(0)
                        if not l:
                            del self.data[k]
                        return [k, v]
                if sock not in self.conns:
                    return None
                self.changed.wait()       # event-driven: no polling timers
        raise ValueError('unknown command %r' % name)

    def llen(self, key):
        v = self.data.get(key if isinstance(key, bytes) else key.encode())
        return len(v) if isinstance(v, list) else 0


# ---------------------------------------------------------------------------------------------
# cloud
# ---------------------------------------------------------------------------------------------

class MemObjectStore(object):
    def __init__(self, substrate=None, yield_points=True):
        self.objects = substrate if substrate is not None else collections.OrderedDict()
        self.yield_points = yield_points
        self.counter = 0

    def _y(self):
        if self.yield_points:
            gevent.sleep(0)

    def _get(self, id):
        o = self.objects.get(id)
        if o is None:
            raise KeyError(id)
        return o

    def write_message(self, envelope, timestamp):
        raw = pickle.dumps(envelope, pickle.HIGHEST_PROTOCOL)
        self._y()
        id = 'obj-' + uuid.uuid4().hex
        self.objects[id] = {'raw': raw, 'timestamp': json.dumps(timestamp), 'attempts': '', 'delivered_indexes': ''}
        return id

    def set_message_meta(self, id, timestamp=None, attempts=None, delivered_indexes=None):
        o = self._get(id)
        self._y()
        if timestamp is not None:
            o['timestamp'] = json.dumps(timestamp)
        if attempts is not None:
            o['attempts'] = json.dumps(attempts)
        if delivered_indexes is not None:
            o['delivered_indexes'] = json.dumps(delivered_indexes)

    def delete_message(self, id):
        self._get(id)
        self._y()
        self.objects.pop(id, None)

    def _meta(self, o):
        meta = {'timestamp': json.loads(o['timestamp'])}
        if o['attempts']:
            meta['attempts'] = json.loads(o['attempts'])
        if o['delivered_indexes']:
            meta['delivered_indexes'] = json.loads(o['delivered_indexes'])
        return meta

    def get_message(self, id):
        o = self._get(id)
        self._y()
        return pickle.loads(o['raw']), self._meta(o)

    def get_message_meta(self, id):
        o = self._get(id)
        self._y()
        return self._meta(o)

    def list_messages(self):
        ids = list(self.objects)
        self._y()
        for id in ids:
            o = self.objects.get(id)
            if o is not None:
                yield (json.loads(o['timestamp']), id)


class MemMessageQueue(object):
    def __init__(self):
        self.messages = []
        self.n = 0

    def queue_message(self, storage_id, timestamp):
        self.n += 1
        self.messages.append((json.dumps({'timestamp': timestamp, 'storage_id': storage_id}), self.n))

    def poll(self):
        for body, mid in list(self.messages):
            p = json.loads(body)
            yield (p['timestamp'], p['storage_id'], mid)

    def delete(self, mid):
        self.messages = [(b, m) for b, m in self.messages if m != mid]

    def sleep(self):
        pass


# ---------------------------------------------------------------------------------------------
# factory used by the queue machine and the storage machine
# ---------------------------------------------------------------------------------------------

class ShelfDict(object):
    """Mapping with the semantics of a shelve.Shelf without writeback: values are pickled on
    assignment and every read returns a fresh copy (slimta.queue.dict recommends shelve for persistence)."""

    def __init__(self):
        self.raw = collections.OrderedDict()

    def __getitem__(self, key):
        return pickle.loads(self.raw[key])

    def __setitem__(self, key, value):
        self.raw[key] = pickle.dumps(value, pickle.HIGHEST_PROTOCOL)

    def __delitem__(self, key):
        del self.raw[key]

    def __contains__(self, key):
        return key in self.raw

    def __len__(self):
        return len(self.raw)

    def keys(self):
        return list(self.raw.keys())

    def __iter__(self):
        return iter(list(self.raw.keys()))


def make(name, holder):
    """Build the real slimta backend over a substrate that lives on `holder` (survives clean restarts)."""
    if name == 'shelf':
        from slimta.queue.dict import DictStorage
        sub = getattr(holder, 'shelf_dbs', None)
        if sub is None:
            sub = holder.shelf_dbs = (ShelfDict(), ShelfDict())
        return DictStorage(*sub)
    if name == 'redis':
        from slimta.redisstorage import RedisStorage
        srv = getattr(holder, 'redis_server', None)
        if srv is None:
            srv = holder.redis_server = FakeRedisServer()
        store = RedisStorage('127.0.0.1', srv.port, prefix='vq:')
        old = getattr(holder, 'redis_store', None)
        if old is not None:
            try:
                old.redis.connection_pool.disconnect()
            except Exception:
                pass
        holder.redis_store = store

        def close():
            try:
                store.redis.connection_pool.disconnect()
            except Exception:
                pass
            srv.stop()
        store.verif_close = close
        store.verif_server = srv
        return store
    if name in ('cloud', 'cloud-mq'):
        from slimta.cloudstorage import CloudStorage
        sub = getattr(holder, 'cloud_objects', None)
        if sub is None:
            sub = holder.cloud_objects = collections.OrderedDict()
        mq = None
        if name == 'cloud-mq':
            mq = getattr(holder, 'cloud_mq', None)
            if mq is None:
                mq = holder.cloud_mq = MemMessageQueue()
        store = CloudStorage(MemObjectStore(sub), mq)
        store.verif_mq = mq
        return store
    raise ValueError(name)
