"""Generators and drivers for queue-machine histories (C01, C03, C12, C13)."""
import itertools

from hypothesis import strategies as st

from vf import hyp
from vf import qm

BACKOFFS = [
    ([], False), ([0], False), ([0, 0], False), ([0, 0, 0], True), ([5], False), ([5, 10], False),
    ([5], True), ([1, 0, 2], False), ([0.125, 0.125], False), ([8, 8, 8], False),
]


def configs(backends, pools=True, announce=False, bounce=False):
    def strat(draw):
        backend = draw(st.sampled_from(backends))
        table, forever = draw(st.sampled_from(BACKOFFS))
        cfg = {'backend': backend, 'backoff': table, 'backoff_forever': forever}
        if pools:
            cfg['store_pool'] = draw(st.sampled_from([None, None, 1, 2]))
            cfg['relay_pool'] = draw(st.sampled_from([None, None, 1, 2]))
        if announce and draw(st.booleans()) and cfg.get('store_pool') != 1:
            cfg['announce'] = True
        if bounce:
            cfg['shared_replies'] = draw(st.sampled_from([False, False, True]))
            cfg['bounce_factory'] = draw(st.sampled_from(['default', 'default', 'headersonly', 'none']))
            cfg['bounce_queue'] = draw(st.sampled_from(['self', 'self', 'separate', 'separate-queue']))
        return cfg
    return st.composite(strat)()


_per = st.lists(st.sampled_from(['ok', 'temp', 'perm']), min_size=1, max_size=4)
_outcome = st.one_of(
    st.fixed_dictionaries({'shape': st.sampled_from(['map', 'map', 'seq']), 'per': _per, 'rev': st.sampled_from([False, False, True]),
                           'replies': st.lists(st.integers(0, 4), min_size=1, max_size=4)}),
    st.fixed_dictionaries({'shape': st.sampled_from(['none', 'reply', 'raise_t', 'raise_t', 'raise_p', 'raise_x']),
                           'replies': st.lists(st.integers(0, 4), min_size=1, max_size=1)}))


def _outcomes(fail_heavy):
    if not fail_heavy:
        return _outcome
    per = st.lists(st.sampled_from(['perm', 'perm', 'temp', 'ok']), min_size=1, max_size=4)
    return st.one_of(
        st.fixed_dictionaries({'shape': st.sampled_from(['map', 'seq']), 'per': per, 'rev': st.sampled_from([False, True]),
                               'replies': st.lists(st.integers(0, 4), min_size=1, max_size=4)}),
        st.fixed_dictionaries({'shape': st.sampled_from(['raise_p', 'raise_t', 'raise_x']),
                               'replies': st.lists(st.integers(0, 4), min_size=1, max_size=1)}))


def actions(weights, fail_heavy=False, bodies=False):
    """weights: dict action-kind -> relative weight."""
    body = st.sampled_from(['', '', 'c3a9c3a80d0a2e0d0a', '00ff0d0a0d0a46726f6d20780d0a', '2e2e0d0a'])
    if bodies:
        import re as _re
        from vf.props import c20

        def _block(t):
            block = _re.sub(br'\r?\n', b'\r\n', t[0]) + b'\r\n'
            # the engine adds From and X-Tag itself
            lines = [l for l in block.split(b'\r\n') if l]
            keep = []
            skip = False
            for l in lines:
                if l[:1] in (b' ', b'\t'):
                    if not skip:
                        keep.append(l)
                    continue
                skip = l.split(b':')[0].strip().lower() in (b'x-tag', b'from')
                if not skip:
                    keep.append(l)
            return (b'\r\n'.join(keep) + b'\r\n').hex() if keep else ''
        blocks = st.one_of(st.just(''), c20.structured_case().map(_block))
        enq = st.fixed_dictionaries({'n': st.integers(1, 8), 'many': st.just(True), 'sender': st.sampled_from([True, True, True, False]),
                                     'body': body, 'block': blocks, 'dup': st.sampled_from([False, False, False, False, True, 2]),
                                     'utf8': st.sampled_from([False, False, False, True])}
                                    ).map(lambda d: ['enqueue', d])
    else:
        enq = st.fixed_dictionaries({'n': st.integers(1, 4), 'sender': st.sampled_from([True, True, True, False]),
                                     'body': st.just(''), 'dup': st.sampled_from([False, False, False, False, True, 2]),
                                     'utf8': st.sampled_from([False, False, False, True])}
                                    ).map(lambda d: ['enqueue', d])
    rel = st.tuples(st.integers(0, 7), _outcomes(fail_heavy)).map(lambda t: ['release', t[0], t[1]])
    choices = {
        'enqueue': enq,
        'release': rel,
        'tick': st.just(['tick']),
        'advance': st.sampled_from([1, 8, 39, 40, 41, 80]).map(lambda d: ['advance', d]),
        'flush': st.just(['flush']),
        'announce': st.integers(0, 3).map(lambda i: ['announce', i]),
        'restart': st.just(['restart']),
        'serve': _outcomes(fail_heavy).map(lambda o: ['serve', o]),
        'storage': st.just(['storage']),
        'answer': _outcomes(fail_heavy).map(lambda o: ['answer', o]),
        'fault': st.integers(0, 3).map(lambda i: ['fault', i]),
    }
    pool = []
    for k, w in weights.items():
        pool.extend([choices[k]] * w)
    return st.lists(st.one_of(*pool) if len(pool) > 1 else pool[0], min_size=3, max_size=40)


def history(cfg_strategy, weights, fail_heavy=False, bodies=False):
    first = st.fixed_dictionaries({'n': st.integers(1, 4), 'sender': st.sampled_from([True, True, False]),
                                   'body': st.just(''), 'dup': st.sampled_from([False, False, False, False, True, 2]),
                                     'utf8': st.sampled_from([False, False, False, True])}
                                  ).map(lambda d: ['enqueue', d])
    return st.tuples(cfg_strategy, first, actions(weights, fail_heavy, bodies)).map(lambda t: (t[0], [t[1]] + t[2]))


def nontrivial_common(labels, stats):
    return stats['max_attempts_one_msg'] >= 2 and ('mixed-outcome' in labels or 'exhausted' in labels)


def drive_histories(ctx, owners, strategy, n, nontrivial, salt=0):
    def one(v):
        cfg, acts = v
        fails, labels, stats = qm.run_history(cfg, acts, owners)
        labs = sorted(labels) + ['backend=' + cfg['backend']]
        if cfg.get('store_pool') or cfg.get('relay_pool'):
            labs.append('bounded-pool')
        ctx.record(repr((cfg, acts)), nontrivial(labels, stats, cfg, acts), labels=labs,
                   case=lambda: {'cfg': cfg, 'actions': acts}, failures=fails)
    hyp.drive(ctx, strategy, one, n, salt=salt)


# -- exhaustive outcome enumeration ------------------------------------------------------------

def outcome_histories(nrcpt, rounds):
    """Every per-recipient outcome history over `rounds` serial attempts: for each round an assignment
    ok/temp/perm to each recipient still outstanding."""
    def rec(outstanding, r):
        if not outstanding or r == 0:
            yield []
            return
        for assign in itertools.product(('ok', 'temp', 'perm'), repeat=len(outstanding)):
            rest = [o for o, a in zip(outstanding, assign) if a == 'temp']
            for tail in rec(rest, r - 1):
                yield [list(assign)] + tail
    return rec(list(range(nrcpt)), rounds)


def serial_actions(nrcpt, hist, shape):
    acts = [['enqueue', {'n': nrcpt, 'sender': True, 'body': ''}]]
    for assign in hist:
        acts.append(['serve', {'shape': shape, 'per': assign, 'replies': [0]}])
    return acts


def drive_enumeration(ctx, owners, backends, max_rcpt, rounds):
    index = 0
    for backend in backends:
        for backoff in ([0, 0, 0, 0], [5, 5, 5, 5], [0, 0]):
            for n in range(1, max_rcpt + 1):
                for hist in outcome_histories(n, rounds):
                    for shape in ('map', 'seq'):
                        index += 1
                        if not ctx.mine(index):
                            continue
                        cfg = {'backend': backend, 'backoff': backoff}
                        acts = serial_actions(n, hist, shape)
                        fails, labels, stats = qm.run_history(cfg, acts, owners)
                        nt = len(hist) >= 2 and n >= 2
                        ctx.record(('enum', backend, tuple(backoff), n, repr(hist), shape), nt,
                                   labels=['enumeration', 'backend=' + backend, 'rounds=%d' % len(hist)],
                                   case=lambda: {'cfg': cfg, 'actions': acts}, failures=fails)


# -- bounded exhaustive action sequences ---------------------------------------------------------

SEQ_ALPHABET = [
    ['serve', {'shape': 'raise_t', 'replies': [0]}],
    ['serve', {'shape': 'none'}],
    ['serve', {'shape': 'map', 'per': ['ok', 'temp', 'perm'], 'replies': [0, 2]}],
    ['tick'],
    ['advance', 16],
    ['flush'],
    ['announce', 0],
    ['restart'],
    ['enqueue', {'n': 2, 'sender': True, 'body': ''}],
    ['release', 0, {'shape': 'raise_t', 'replies': [1]}],
    ['storage'],
    ['answer', {'shape': 'raise_t', 'replies': [0]}],
    ['answer', {'shape': 'map', 'per': ['perm', 'temp', 'perm'], 'replies': [0]}],
]
SEQ_CONFIGS = [
    {'backend': 'dict', 'backoff': [5, 5], 'backoff_forever': True, 'announce': True},
    {'backend': 'dict', 'backoff': [0, 5], 'backoff_forever': False, 'announce': True},
    {'backend': 'disk', 'backoff': [5], 'backoff_forever': True},
    {'backend': 'dict', 'backoff': [0, 0, 0], 'backoff_forever': True, 'store_pool': 2, 'relay_pool': 2},
]


def drive_sequences(ctx, owners, depth, nontrivial, configs=None):
    """Every action sequence up to `depth` over SEQ_ALPHABET after an initial 3-recipient enqueue."""
    index = 0
    for cfg in configs or SEQ_CONFIGS:
        for n in range(1, depth + 1):
            for seq in itertools.product(range(len(SEQ_ALPHABET)), repeat=n):
                index += 1
                if not ctx.mine(index):
                    continue
                acts = [['enqueue', {'n': 3, 'sender': True, 'body': ''}]] + [SEQ_ALPHABET[i] for i in seq]
                fails, labels, stats = qm.run_history(cfg, acts, owners)
                ctx.record(('seq', cfg['backend'], tuple(cfg['backoff']), seq), nontrivial(labels, stats, cfg, acts),
                           labels=['sequences', 'backend=' + cfg['backend']] + sorted(labels),
                           case=lambda: {'cfg': cfg, 'actions': acts}, failures=fails)


# -- bursts: several messages due in the same scheduler pass, bounded pools ------------------------------

def burst_history():
    T = {'shape': 'raise_t', 'replies': [0]}

    @st.composite
    def strat(draw):
        k = draw(st.integers(2, 4))
        cfg = {'backend': draw(st.sampled_from(['dict', 'dict', 'disk', 'shelf'])),
               'backoff': [draw(st.sampled_from([5, 0, 1]))], 'backoff_forever': True,
               'store_pool': draw(st.sampled_from([1, 2, 2, 3])), 'relay_pool': draw(st.sampled_from([None, 1, 2]))}
        acts = []
        for _ in range(k):
            acts.append(['enqueue', {'n': draw(st.integers(1, 2)), 'sender': True, 'body': ''}])
        for _ in range(k):
            acts.append(['serve', T])
        acts.append(['tick'])
        tail = draw(st.lists(st.one_of(
            st.integers(0, 5).map(lambda i: ['release', i, T]),
            st.integers(0, 5).map(lambda i: ['release', i, T]),
            st.just(['answer', T]),
            st.just(['answer', {'shape': 'none'}]),
            st.just(['storage']),
            st.just(['tick'])), min_size=4, max_size=30))
        return cfg, acts + tail
    return strat()


# -- directed families found necessary by independently seeded changes -------------------------------------

def restart_race_history():
    """A restart whose load() overlaps with the delivery and removal of a freshly enqueued message."""
    T = {'shape': 'raise_t', 'replies': [0]}
    OK = {'shape': 'none'}

    @st.composite
    def strat(draw):
        cfg = {'backend': draw(st.sampled_from(['disk', 'disk', 'cloud', 'redis', 'shelf'])),
               'backoff': [draw(st.sampled_from([5, 0]))], 'backoff_forever': True, 'late': draw(st.booleans())}
        k = draw(st.integers(2, 3))
        acts = []
        for _ in range(k):
            acts.append(['enqueue', {'n': draw(st.integers(1, 2)), 'sender': True, 'body': ''}])
            acts.append(['serve', T])
        acts.append(['restart'])
        acts.append(['enqueue', {'n': 1, 'sender': True, 'body': ''}])
        # the new message is written, attempted and delivered while the load gate is still closed
        tail = [['release', 1, OK], ['release', 1, OK], ['storage']]      # write, relay answer; then load and remove together
        tail += draw(st.lists(st.one_of(st.just(['storage']), st.integers(0, 4).map(lambda i: ['release', i, OK]),
                                        st.just(['tick']), st.just(['answer', OK])), max_size=8))
        return cfg, acts + tail
    return strat()


def saturated_pool_history():
    """A due message is dequeued while the bounded relay pool is full, and is announced again meanwhile."""
    T = {'shape': 'raise_t', 'replies': [0]}
    OK = {'shape': 'none'}

    @st.composite
    def strat(draw):
        size = draw(st.sampled_from([1, 1, 2]))
        cfg = {'backend': draw(st.sampled_from(['dict', 'dict', 'disk', 'shelf'])), 'backoff': [5], 'backoff_forever': True,
               'relay_pool': size, 'announce': True, 'store_pool': None}
        acts = [['enqueue', {'n': draw(st.integers(1, 2)), 'sender': True, 'body': ''}], ['serve', T]]
        for _ in range(size):
            acts.append(['enqueue', {'n': 1, 'sender': True, 'body': ''}])
            acts.append(['storage'])
        acts += [['tick'], ['storage'], ['announce', 0], ['storage']]
        tail = draw(st.lists(st.one_of(st.just(['storage']), st.just(['answer', OK]), st.just(['answer', OK]),
                                       st.integers(0, 4).map(lambda i: ['release', i, OK]), st.just(['announce', 0]),
                                       st.just(['tick'])), min_size=2, max_size=12))
        return cfg, acts + tail
    return strat()


# -- bounded exhaustive schedule enumeration --------------------------------------------------------------

DFS_SCENARIOS = [
    # (name, config, prefix)
    ('enqueue-vs-announce', {'backend': 'dict', 'backoff': [0, 5], 'backoff_forever': True, 'announce': True},
     [['enqueue', {'n': 2, 'sender': True, 'body': ''}], ['announce', 0]]),
    ('retry-vs-flush', {'backend': 'dict', 'backoff': [5], 'backoff_forever': True},
     [['enqueue', {'n': 2, 'sender': True, 'body': ''}], ['serve', {'shape': 'raise_t', 'replies': [0]}], ['flush']]),
    ('two-messages-backoff-0', {'backend': 'shelf', 'backoff': [0, 0], 'backoff_forever': True},
     [['enqueue', {'n': 2, 'sender': True, 'body': ''}], ['enqueue', {'n': 1, 'sender': True, 'body': ''}]]),
    ('restart-vs-enqueue', {'backend': 'dict', 'backoff': [5], 'backoff_forever': True, 'announce': True},
     [['enqueue', {'n': 1, 'sender': True, 'body': ''}], ['serve', {'shape': 'raise_t', 'replies': [0]}], ['restart'],
      ['enqueue', {'n': 1, 'sender': True, 'body': ''}]]),
]


def drive_schedule_dfs(ctx, owners, depth, nontrivial):
    """Every order of gate releases up to `depth` releases (stateless re-execution), then the fair drain."""
    for si, (name, cfg, prefix) in enumerate(DFS_SCENARIOS):
        stack = [[]]
        while stack:
            choices = stack.pop()
            # sub-trees below depth 2 are owned by one shard; the few nodes above are walked by all, judged by shard 0
            if len(choices) >= 2:
                owner = (choices[0] * 7 + choices[1] * 3 + si) % ctx.nshards
                if owner != ctx.shard:
                    continue
                mine = True
            else:
                mine = ctx.shard == 0
            acts = prefix + [['pick', c] for c in choices]
            fails, labels, stats = qm.run_history(cfg, acts, owners if mine else set())
            if mine:
                ctx.record(('dfs', name, tuple(choices)), len(choices) >= 3, labels=['schedule-dfs', 'scenario=' + name] + sorted(labels),
                           case=lambda: {'cfg': cfg, 'actions': acts}, failures=fails)
            if len(choices) < depth and not stats['exhausted_choice']:
                for c in range(stats['pending_now']):
                    stack.append(choices + [c])


def flush_busy_history():
    """flush() called while the scheduler is blocked spawning into a full bounded store pool."""
    OK = {'shape': 'none'}
    T = {'shape': 'raise_t', 'replies': [0]}

    @st.composite
    def strat(draw):
        cfg = {'backend': draw(st.sampled_from(['dict', 'disk', 'shelf'])), 'backoff': [draw(st.sampled_from([8, 5]))],
               'backoff_forever': draw(st.booleans()), 'announce': True, 'store_pool': 2, 'relay_pool': draw(st.sampled_from([None, 2]))}
        acts = [['enqueue', {'n': draw(st.integers(1, 3)), 'sender': True, 'body': ''}]]
        if draw(st.booleans()):
            acts += [['enqueue', {'n': 1, 'sender': True, 'body': ''}], ['serve', T]]
        acts += [['answer', draw(st.sampled_from([OK, T]))], ['announce', 0], ['flush']]
        tail = draw(st.lists(st.one_of(st.just(['storage']), st.integers(0, 3).map(lambda i: ['release', i, OK]), st.just(['flush']),
                                       st.just(['announce', 0]), st.just(['tick']), st.just(['answer', OK])), max_size=10))
        return cfg, acts + tail
    return strat()


def exhausted_dup_history():
    """Every recipient fails transiently in a per-recipient result and the backoff gives up at once or after one retry, for
    recipient lists that name one mailbox twice (first and last / the first two)."""
    cases = []
    for n in (3, 4):
        for dup in (True, 2):
            for shape in ('map', 'seq'):
                for replies in ([0], [0, 1], [1, 0, 0], [0, 0, 1]):
                    for backoff in ([], [0]):
                        spec = {'shape': shape, 'per': ['temp'], 'replies': replies}
                        cases.append(({'backend': 'dict', 'backoff': backoff},
                                      [['enqueue', {'n': n, 'sender': True, 'body': '', 'dup': dup}], ['answer', spec], ['storage'],
                                       ['tick'], ['answer', spec], ['storage']]))
    # two messages run out of retries on the same reply object
    for shape in ('map', 'raise_t'):
        for backoff in ([], [0]):
            spec = {'shape': shape, 'per': ['temp'], 'replies': [0]}
            one = [['answer', spec], ['storage'], ['tick'], ['answer', spec], ['storage']]
            cases.append(({'backend': 'dict', 'backoff': backoff, 'shared_replies': True},
                          [['enqueue', {'n': 2, 'sender': True, 'body': ''}]] + one + [['enqueue', {'n': 1, 'sender': True, 'body': ''}]] + one +
                          [['enqueue', {'n': 1, 'sender': True, 'body': ''}]] + one))
    return st.sampled_from(cases)


def sched_hold_history():
    """The scheduler loop has been woken (a store announcing its own writes put the new message on the schedule) but does not get
    to run before enqueue() has made - and lost - the first attempt itself."""
    OK = {'shape': 'none'}
    T = {'shape': 'raise_t', 'replies': [0]}
    MT = {'shape': 'map', 'per': ['temp'], 'replies': [0]}

    @st.composite
    def strat(draw):
        cfg = {'backend': draw(st.sampled_from(['dict', 'disk', 'redis'])), 'backoff': [5], 'backoff_forever': True, 'late': True,
               'announce': True, 'sched_gate': True}
        outcome = draw(st.sampled_from([T, MT, MT, {'shape': 'map', 'per': ['ok', 'temp'], 'replies': [0]}]))
        acts = [['enqueue', {'n': draw(st.integers(1, 2)), 'sender': True, 'body': ''}],
                ['release_kind', 'sched', 0],           # the scheduler's first look at the (empty) schedule, if it waits for one
                ['release_kind', 'write', 0], ['announce', 0], ['release_kind', 'write_done', 0],
                ['release_kind', 'relay', 0, outcome]]
        for k_ in ('increment_attempts', 'set_timestamp', 'set_recipients_delivered'):
            if draw(st.integers(0, 5)):
                acts.append(['release_kind', k_, 0])
        acts.append(['release_kind', 'sched', 0])
        step = st.one_of(st.just(['release_kind', 'sched', 0]), st.just(['release_kind', 'get', 0]), st.just(['release_kind', 'get_done', 0]),
                         st.just(['release_kind', 'relay', 0, OK]), st.just(['storage']), st.just(['tick']),
                         st.integers(0, 3).map(lambda i: ['release', i, OK]))
        return cfg, acts + draw(st.lists(step, max_size=8))
    return strat()


def flush_blocked_spawn_history():
    """flush() of several waiting messages into a small bounded store pool: flush() is still handing the later entries to the
    pool while an earlier one has already been read, attempted and deferred again."""
    OK = {'shape': 'none'}
    T = {'shape': 'raise_t', 'replies': [0]}
    MT = {'shape': 'map', 'per': ['temp'], 'replies': [0]}

    @st.composite
    def strat(draw):
        cfg = {'backend': draw(st.sampled_from(['dict', 'disk'])), 'backoff': [5], 'backoff_forever': True,
               'store_pool': draw(st.sampled_from([1, 1, 2])), 'relay_pool': None, 'announce': draw(st.booleans())}
        acts = []
        for _ in range(draw(st.integers(3, 4))):
            acts += [['enqueue', {'n': draw(st.integers(1, 2)), 'sender': True, 'body': ''}], ['serve', T]]
        acts.append(['flush'])
        outcome = draw(st.sampled_from([MT, MT, T]))
        acts += [['release_kind', 'get', 0], ['release_kind', 'relay', 0, outcome]]
        step = st.one_of(st.just(['release_kind', 'increment_attempts', 0]), st.just(['release_kind', 'set_timestamp', 0]),
                         st.just(['release_kind', 'get', 0]), st.just(['release_kind', 'relay', 0, outcome]), st.just(['storage']),
                         st.integers(0, 3).map(lambda i: ['release', i, OK]))
        tail = draw(st.lists(step, max_size=10))
        return cfg, acts + tail + [['tick'], ['tick']]
    return strat()


def announce_window_history():
    """A (stale) announcement of a message arrives while the storage operations that follow a relay answer are still pending."""
    T = {'shape': 'raise_t', 'replies': [0]}
    OK = {'shape': 'none'}

    @st.composite
    def strat(draw):
        cfg = {'backend': draw(st.sampled_from(['dict', 'dict', 'disk', 'shelf', 'redis', 'cloud'])),
               'backoff': [draw(st.sampled_from([5, 5, 0, 8]))], 'backoff_forever': True, 'announce': True,
               'store_pool': draw(st.sampled_from([None, None, 3])), 'relay_pool': draw(st.sampled_from([None, None, 2]))}
        n = draw(st.integers(1, 3))
        acts = [['enqueue', {'n': n, 'sender': draw(st.booleans()), 'body': ''}]]
        if draw(st.integers(0, 2)) == 0:
            acts.append(['serve', draw(st.sampled_from([T, {'shape': 'map', 'per': ['ok', 'temp', 'temp'], 'replies': [0]}]))])
            acts.append(['tick'])
        per = draw(st.lists(st.sampled_from(['ok', 'perm', 'ok', 'temp']), min_size=n, max_size=n))
        spec = draw(st.sampled_from([{'shape': 'map', 'per': per, 'replies': [0]}, {'shape': 'seq', 'per': per, 'replies': [1]},
                                     {'shape': 'map', 'per': per, 'replies': [0]}, OK, T, {'shape': 'raise_p', 'replies': [0]}]))
        acts.append(['answer', spec])
        # some of the storage operations that follow the answer may complete before the announcement
        for _ in range(draw(st.integers(0, 2))):
            acts.append(['release', 0, OK])
        acts.append(['announce', 0])
        tail = draw(st.lists(st.one_of(st.integers(0, 4).map(lambda i: ['release', i, OK]), st.integers(0, 4).map(lambda i: ['release', i, OK]),
                                       st.just(['announce', 0]), st.just(['tick']), st.just(['storage']), st.just(['answer', OK]),
                                       st.just(['answer', T])), min_size=2, max_size=12))
        return cfg, acts + tail
    return strat()


def storage_fault_history():
    """One of the storage operations that record the outcome of a partial round fails with an I/O error (C03 only: no settled
    recipient may be attempted again afterwards, whatever else happens to the message)."""
    T = {'shape': 'raise_t', 'replies': [0]}
    OK = {'shape': 'none'}

    @st.composite
    def strat(draw):
        cfg = {'backend': draw(st.sampled_from(['dict', 'dict', 'disk', 'shelf', 'redis'])), 'backoff': [draw(st.sampled_from([0, 0, 5]))],
               'backoff_forever': True, 'announce': draw(st.booleans())}
        n = draw(st.integers(2, 4))
        acts = [['enqueue', {'n': n, 'sender': True, 'body': ''}]]
        if draw(st.booleans()):
            acts.append(['enqueue', {'n': 1, 'sender': True, 'body': ''}])
        per = draw(st.lists(st.sampled_from(['ok', 'temp', 'perm', 'ok', 'temp']), min_size=n, max_size=n))
        acts.append(['answer', draw(st.sampled_from([{'shape': 'map', 'per': per, 'replies': [0]}, {'shape': 'seq', 'per': per, 'replies': [0]}, T]))])
        for _ in range(draw(st.integers(0, 2))):
            acts.append(['release', 0, OK])
        acts.append(['fault', draw(st.integers(0, 2))])
        tail = draw(st.lists(st.one_of(st.integers(0, 4).map(lambda i: ['release', i, OK]), st.just(['tick']), st.just(['storage']),
                                       st.just(['answer', OK]), st.just(['answer', T]), st.just(['announce', 0]), st.just(['flush']),
                                       st.just(['advance', 41])), min_size=2, max_size=14))
        return cfg, acts + tail
    return strat()


def double_report_history():
    """A stored message is reported twice to a (re)started queue - by load() and by wait(), or by an at-least-once announcement -
    while the first _dequeue is still reading it from storage; the reads are answered in either order, before or after the
    outcome of the first attempt has been recorded."""
    T = {'shape': 'raise_t', 'replies': [0]}
    OK = {'shape': 'none'}

    @st.composite
    def strat(draw):
        cfg = {'backend': draw(st.sampled_from(['dict', 'disk', 'shelf', 'redis', 'cloud'])), 'backoff': [draw(st.sampled_from([5, 8]))],
               'backoff_forever': True, 'announce': True, 'store_pool': draw(st.sampled_from([None, None, 3])),
               'relay_pool': draw(st.sampled_from([None, None, 2])), 'late': draw(st.booleans())}
        n = draw(st.integers(1, 3))
        per = draw(st.lists(st.sampled_from(['ok', 'temp', 'perm', 'temp']), min_size=n, max_size=n))
        outcome = draw(st.sampled_from([T, T, {'shape': 'map', 'per': per, 'replies': [0]}]))
        acts = [['enqueue', {'n': n, 'sender': True, 'body': ''}], ['serve', T], ['restart'], ['advance', 80],
                ['release_kind', 'load', 0],          # first report: _dequeue starts and parks in get()
                ['announce', 0]]                      # second report while the id is neither queued nor active
        which = draw(st.integers(0, 1))
        acts += [['release_kind', 'get', which], ['release_kind', 'relay', 0, outcome]]
        # record the outcome (some or all of it) before the other read is answered
        for k_ in draw(st.lists(st.sampled_from(['increment_attempts', 'set_timestamp', 'set_recipients_delivered', 'remove']),
                                min_size=0, max_size=4)):
            acts.append(['release_kind', k_, 0])
        acts.append(['release_kind', 'get', 0])
        tail = draw(st.lists(st.one_of(st.integers(0, 3).map(lambda i: ['release', i, OK]), st.just(['storage']), st.just(['answer', OK]),
                                       st.just(['tick'])), max_size=6))
        return cfg, acts + tail
    return strat()


def enqueue_vs_load_history():
    """enqueue() racing the start-up load of a restarted queue: the new message is in the store (and listed by load()) before
    enqueue() has claimed it."""
    T = {'shape': 'raise_t', 'replies': [0]}
    OK = {'shape': 'none'}

    @st.composite
    def strat(draw):
        cfg = {'backend': draw(st.sampled_from(['dict', 'disk', 'shelf', 'redis'])), 'backoff': [draw(st.sampled_from([5, 8]))],
               'backoff_forever': True, 'late': True, 'announce': draw(st.booleans()),
               'store_pool': draw(st.sampled_from([None, None, 3]))}
        acts = [['enqueue', {'n': 1, 'sender': True, 'body': ''}], ['release_kind', 'write', 0], ['release_kind', 'write_done', 0],
                ['answer', T], ['storage'], ['restart'],
                ['enqueue', {'n': draw(st.integers(1, 2)), 'sender': True, 'body': ''}],
                ['release_kind', 'write', 0],               # the new message is stored; enqueue() is still waiting for the answer
                ['release_kind', 'load', 0]]                # the start-up scan lists it and schedules it (due now)
        tail = draw(st.lists(st.one_of(st.just(['release_kind', 'write_done', 0]), st.just(['release_kind', 'get', 0]),
                                       st.just(['release_kind', 'get_done', 0]), st.just(['release_kind', 'relay', 0, T]),
                                       st.just(['release_kind', 'relay', 0, OK]), st.just(['release_kind', 'increment_attempts', 0]),
                                       st.just(['release_kind', 'set_timestamp', 0]), st.just(['storage']), st.just(['tick'])),
                             min_size=4, max_size=14))
        return cfg, acts + tail
    return strat()


def late_wake_history():
    """The scheduler is held up spawning into a full bounded store pool while the clock moves on; a message that falls due in the
    meantime must be attempted as soon as the scheduler is free again, not one stale sleep later."""
    T = {'shape': 'raise_t', 'replies': [0]}
    OK = {'shape': 'none'}

    @st.composite
    def strat(draw):
        cfg = {'backend': draw(st.sampled_from(['dict', 'disk', 'shelf'])), 'backoff': [5], 'backoff_forever': True,
               'store_pool': draw(st.sampled_from([1, 2])), 'relay_pool': None}
        k = cfg['store_pool'] + 1
        acts = []
        for _ in range(k):
            acts += [['enqueue', {'n': 1, 'sender': True, 'body': ''}], ['serve', T]]       # due at +5
        acts += [['advance', draw(st.sampled_from([8, 10]))],                             # a little later
                 ['enqueue', {'n': 1, 'sender': True, 'body': ''}], ['serve', T],         # due a little after the others
                 ['tick']]                                                               # the first batch falls due: the pool fills up
        acts += [['advance', draw(st.sampled_from([40, 80]))]]                            # time passes while the scheduler is blocked
        tail = draw(st.lists(st.one_of(st.just(['storage']), st.just(['answer', OK]), st.just(['release', 0, OK])), min_size=4, max_size=12))
        return cfg, acts + tail + [['storage'], ['answer', OK], ['storage'], ['answer', OK], ['storage'], ['answer', OK], ['storage']]
    return strat()


def own_write_announced_history():
    """A store that announces every write (message-queue backed stores do) reports the new message to the running queue while
    enqueue() has not yet been told the id: the message may be delivered and removed before enqueue() goes on."""
    T = {'shape': 'raise_t', 'replies': [0]}
    OK = {'shape': 'none'}

    @st.composite
    def strat(draw):
        cfg = {'backend': draw(st.sampled_from(['dict', 'disk', 'redis', 'cloud'])), 'backoff': [draw(st.sampled_from([5, 0]))],
               'backoff_forever': True, 'late': True, 'announce': True}
        n = draw(st.integers(1, 3))
        per = draw(st.lists(st.sampled_from(['ok', 'ok', 'temp', 'perm']), min_size=n, max_size=n))
        outcome = draw(st.sampled_from([OK, OK, T, {'shape': 'map', 'per': per, 'replies': [0]}]))
        if draw(st.integers(0, 2)) == 0:
            # the store publishes the write just before write() returns: enqueue() claims the message first and the schedule
            # entry made from the announcement is consumed while that first attempt is under way
            cfg['announce_on_write'] = True
            cfg['backoff'] = [5]
            acts = [['enqueue', {'n': n, 'sender': True, 'body': ''}], ['release_kind', 'write', 0], ['release_kind', 'write_done', 0],
                    ['release_kind', 'get', 0], ['release_kind', 'get_done', 0], ['tick'],
                    ['release_kind', 'relay', 0, draw(st.sampled_from([T, T, {'shape': 'map', 'per': per, 'replies': [0]}]))]]
            for k_ in draw(st.lists(st.sampled_from(['remove', 'increment_attempts', 'set_timestamp', 'set_recipients_delivered']), max_size=4)):
                acts.append(['release_kind', k_, 0])
            tail = draw(st.lists(st.one_of(st.just(['storage']), st.just(['answer', OK]), st.just(['tick']),
                                           st.integers(0, 3).map(lambda i: ['release', i, OK])), max_size=8))
            return cfg, acts + tail
        if draw(st.integers(0, 3)) == 0:
            # two enqueue() calls overlap; the one started later finishes first, then the scheduler handles the first caller's
            # message (announced by the store) before that caller is told its id
            out2 = draw(st.sampled_from([OK, T, T, {'shape': 'map', 'per': per, 'replies': [0]}]))
            acts = [['enqueue', {'n': n, 'sender': True, 'body': ''}], ['enqueue', {'n': 1, 'sender': True, 'body': ''}],
                    ['release_kind', 'write', 1], ['release_kind', 'write_done', 0]]
            if draw(st.integers(0, 3)):
                acts += [['release_kind', 'relay', 0, OK], ['release_kind', 'remove', 0]]      # the second caller's message is delivered
                mine = 0
            else:
                mine = 1            # ... or its attempt is still open
            acts += [['release_kind', 'write', 0], ['announce', 0], ['release_kind', 'get', 0], ['release_kind', 'get_done', 0],
                     ['release_kind', 'relay', mine, out2]]
            if draw(st.integers(0, 3)):
                # the scheduler's handling of the first caller's message runs to completion
                for k_ in ('increment_attempts', 'set_timestamp', 'set_recipients_delivered', 'remove'):
                    acts.append(['release_kind', k_, 0])
            else:
                for k_ in draw(st.lists(st.sampled_from(['remove', 'increment_attempts', 'set_timestamp', 'set_recipients_delivered']), max_size=4)):
                    acts.append(['release_kind', k_, 0])
            acts.append(['release_kind', 'write_done', 0])
            tail = draw(st.lists(st.one_of(st.just(['storage']), st.just(['answer', OK]), st.just(['tick']),
                                           st.integers(0, 3).map(lambda i: ['release', i, OK])), max_size=8))
            return cfg, acts + tail
        acts = [['enqueue', {'n': n, 'sender': True, 'body': ''}],
                ['release_kind', 'write', 0],           # stored (and announced by the store); enqueue() still waits for the id
                ['announce', 0],
                ['release_kind', 'get', 0], ['release_kind', 'get_done', 0], ['release_kind', 'relay', 0, outcome]]
        for k_ in draw(st.lists(st.sampled_from(['remove', 'increment_attempts', 'set_timestamp', 'set_recipients_delivered']), max_size=4)):
            acts.append(['release_kind', k_, 0])
        acts.append(['release_kind', 'write_done', 0])       # only now enqueue() learns the id
        tail = draw(st.lists(st.one_of(st.just(['storage']), st.just(['answer', OK]), st.just(['tick']),
                                       st.integers(0, 3).map(lambda i: ['release', i, OK])), max_size=8))
        return cfg, acts + tail
    return strat()
