"""Scripted downstream peers (harness side) for the relay checks (C11, C06, C14, C19).

StagePeer is an in-memory reactive SMTP/LMTP server: it parses what the relay
client sends and answers each protocol *stage* with the outcome the script
assigns to it.  It keeps the ground truth of what it accepted.
"""
import errno
import socket as _socket

from vf.transport import WouldBlockForever

SUCCESS = {'banner': '220', 'EHLO': '250', 'LHLO': '250', 'HELO': '250', 'STARTTLS': '220', 'AUTH': '235', 'MAIL': '250',
           'RCPT': '250', 'DATA': '354', 'EOD': '250', 'RSET': '250', 'QUIT': '221', 'OTHER': '250'}

CONNECTION_FAULTS = ('disconnect', 'reset', 'malformed', 'badcode')


def parse_path(line, prefix_len):
    """The address between '<' and the matching '>' of a MAIL/RCPT line, honouring quoted strings and quoted-pairs."""
    i = line.index(b'<', prefix_len - 1) + 1
    j = i
    quoted = False
    while j < len(line):
        c = line[j:j + 1]
        if quoted:
            if c == b'\\':
                j += 1
            elif c == b'"':
                quoted = False
        elif c == b'"':
            quoted = True
        elif c == b'>':
            break
        j += 1
    return line[i:j].decode('utf-8', 'replace')


class StagePeer(object):
    """script: dict 'mK:STAGE' or 'STAGE' -> outcome; outcome in
    '2xx' | '4xx' | '5xx' | '500' | 'malformed' | 'badcode' | 'disconnect' | 'reset'."""

    def __init__(self, script=None, lmtp=False, exts=('PIPELINING', '8BITMIME', 'ENHANCEDSTATUSCODES'), chunks=None,
                 multiline=False):
        self.script = dict(script or {})
        self.lmtp = lmtp
        self.exts = list(exts)
        self.chunks = list(chunks or [4096])
        self.multiline = multiline
        self.nrecv = 0
        self.inbuf = b''
        self.outbuf = b''
        self.closed_by_peer = False
        self.reset_pending = False
        self.closed = False
        self.mode = 'command'
        self.msg = 0                 # index of the current mail transaction (number of MAIL commands seen - 1)
        self.nmail = 0
        self.nrcpt = 0
        self.log = []                # (msg index, stage, outcome)
        self.rcpts = []              # (address, accepted?) of the current transaction
        self.accepted_msgs = []      # (msg index, sender, [accepted rcpts with 2xx EOD], data)
        self.sender = None
        self.ehlo_count = 0
        self.tls = False
        self.commands = []
        self.quit_seen = False
        self._serve('banner', 'banner')

    # -- scripting ------------------------------------------------------------------
    def outcome(self, stage):
        return self.script.get('m%d:%s' % (self.msg, stage), self.script.get(stage, '2xx'))

    def _serve(self, stage, kind, text=None):
        out = self.outcome(stage)
        self.log.append((self.msg, stage, out))
        if out in ('disconnect',):
            self.closed_by_peer = True
            return out
        if out == 'reset':
            self.reset_pending = True
            return out
        if out == 'malformed':
            self.outbuf += b'this is not an smtp reply\r\n'
            return out
        if out == '334bad':
            self.outbuf += b'334 ***not base64***\r\n'
            return out
        if out == '334':
            self.outbuf += b'334 VXNlcm5hbWU6\r\n'        # one more challenge, whatever the client answered
            return out
        if out == 'badcode':
            self.outbuf += b'999 9.9.9 out of range\r\n'
            return out
        if out == '2xx':
            code = SUCCESS[kind]
        elif out == '4xx':
            code = '451'
        elif out == '5xx':
            code = '550'
        else:
            code = out
        esc = {'2': '2.0.0 ', '4': '4.0.0 ', '5': '5.0.0 '}.get(code[0], '')
        text = text or ['%sstage %s msg %d' % (esc, stage, self.msg)]
        if kind in ('EHLO', 'LHLO') and code == '250':
            text = ['peer.example greets you'] + [e for e in self.exts if not (e == 'STARTTLS' and self.tls)]
        elif self.multiline and kind not in ('DATA',):
            text = [text[0], 'second line']
        lines = []
        for t in text[:-1]:
            lines.append('%s-%s\r\n' % (code, t))
        lines.append('%s %s\r\n' % (code, text[-1]))
        self.outbuf += ''.join(lines).encode('utf-8')
        return code

    # -- socket interface --------------------------------------------------------------
    def sendall(self, data):
        if self.closed_by_peer or self.reset_pending:
            raise _socket.error(errno.EPIPE, 'Broken pipe')
        self.inbuf += bytes(data)
        while not (self.closed_by_peer or self.reset_pending):
            if self.mode == 'command':
                i = self.inbuf.find(b'\r\n')
                if i == -1:
                    return
                line, self.inbuf = self.inbuf[:i], self.inbuf[i + 2:]
                self._command(line)
            else:
                if self.inbuf.startswith(b'.\r\n'):
                    end, skip = 0, 3
                else:
                    j = self.inbuf.find(b'\r\n.\r\n')
                    if j == -1:
                        return
                    end, skip = j + 2, 3
                data_seen = self.inbuf[:end]
                self.inbuf = self.inbuf[end + skip:]
                self.mode = 'command'
                self._end_of_data(data_seen)

    send = sendall

    def _command(self, line):
        self.commands.append(line)
        verb = line.split(b' ')[0].upper().decode('ascii', 'replace')
        if getattr(self, 'auth_pending', False):
            # inside an AUTH exchange every line is a response: this server keeps asking (one challenge too many for any mechanism)
            if line.strip() == b'*':
                self.auth_pending = False
                self.outbuf += b'501 5.7.0 authentication cancelled\r\n'
            else:
                self._serve('AUTH', 'AUTH')
            return
        if verb in ('EHLO', 'LHLO', 'HELO'):
            self.ehlo_count += 1
            stage = verb if self.ehlo_count == 1 or verb == 'HELO' else verb + '2'
            self._serve(stage, verb)
            self._reset_tx()
        elif verb == 'STARTTLS':
            code = self._serve('STARTTLS', 'STARTTLS')
            if code == '220':
                self.tls = True
        elif verb == 'AUTH':
            if self._serve('AUTH', 'AUTH') == '334':
                self.auth_pending = True
        elif verb == 'MAIL':
            self._reset_tx()
            self.msg = self.nmail
            self.nmail += 1
            self.sender = parse_path(line, len('MAIL FROM:<'))
            code = self._serve('MAIL', 'MAIL')
            self.mail_ok = isinstance(code, str) and code.startswith('2')
        elif verb == 'RCPT':
            addr = parse_path(line, len('RCPT TO:<'))
            if not getattr(self, 'mail_ok', False):
                # like a real server: no transaction is open
                self.log.append((self.msg, 'RCPT%d' % self.nrcpt, '503'))
                self.outbuf += b'503 5.5.1 need MAIL first\r\n'
                self.nrcpt += 1
                self.rcpts.append((addr, False))
                return
            code = self._serve('RCPT%d' % self.nrcpt, 'RCPT')
            self.nrcpt += 1
            self.rcpts.append((addr, isinstance(code, str) and code.startswith('2')))
        elif verb == 'DATA':
            if not getattr(self, 'mail_ok', False) or not any(ok for _, ok in self.rcpts):
                if self.outcome('DATA') == '2xx':
                    self.log.append((self.msg, 'DATA', '503'))
                    self.outbuf += b'503 5.5.1 no valid recipients\r\n'
                    return
            code = self._serve('DATA', 'DATA')
            if code == '354':
                self.mode = 'data'
        elif verb == 'RSET':
            self._serve('RSET', 'RSET')
            self._reset_tx()
        elif verb == 'QUIT':
            self.quit_seen = True
            self._serve('QUIT', 'QUIT')
        else:
            self._serve('OTHER', 'OTHER')

    def _reset_tx(self):
        self.mail_ok = False
        self.rcpts = []
        self.nrcpt = 0
        self.sender = None

    def _end_of_data(self, data):
        accepted = []
        if self.lmtp:
            k = 0
            for addr, ok in self.rcpts:
                if ok:
                    code = self._serve('EOD%d' % k, 'EOD')
                    if isinstance(code, str) and code.startswith('2'):
                        accepted.append(addr)
                    k += 1
                    if self.closed_by_peer or self.reset_pending:
                        break
        else:
            code = self._serve('EOD', 'EOD')
            if isinstance(code, str) and code.startswith('2'):
                accepted = [a for a, ok in self.rcpts if ok]
        self.accepted_msgs.append((self.msg, self.sender, accepted, data))
        self._reset_tx()

    def recv(self, n=4096, flags=0):
        if self.outbuf:
            k = max(1, min(n, self.chunks[self.nrecv % len(self.chunks)]))
            self.nrecv += 1
            piece, self.outbuf = self.outbuf[:k], self.outbuf[k:]
            return piece
        if self.reset_pending:
            raise _socket.error(errno.ECONNRESET, 'Connection reset by peer')
        if self.closed_by_peer or self.closed:
            return b''
        raise WouldBlockForever()

    def getpeername(self):
        return ('peer.example', 25)

    def fileno(self):
        return -1

    def close(self):
        self.closed = True

    def unwrap(self):
        return self

    def shutdown(self, how):
        pass


class StubClientContext(object):
    """TLS context stand-in: the 'encrypted' channel is the same in-memory peer."""

    def wrap_socket(self, sock, server_hostname=None, **kw):
        return sock

    def session_stats(self):
        return {}


def kill_relay(relay):
    """RelayPool.kill() iterates over the live set while the clients' links remove themselves from it."""
    for client in list(getattr(relay, 'pool', [])):
        try:
            client.kill(block=False)
        except Exception:
            pass
