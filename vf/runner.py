"""Common runner: sharding, seeds, evidence, replay files, known findings.

A property module (vf/props/cNN.py) defines

  ID, LEVEL, RULE, ASSUMPTIONS (list of str)
  def run_shard(ctx): ...                 # generate + judge cases, report through ctx
  def replay(case) -> list[(sig, msg)]    # re-run one concrete case without any generator

The oracle never raises for a violation: it reports `(signature, message)`
pairs, so that generation continues past the first failure and failures are
bucketed by signature (oracle clause + input class).  The parent process
merges the shards, minimises one concrete case per unknown signature with a
generic JSON delta-debugger driven by `replay`, writes replay files and the
evidence file, and prints the protocol lines.
"""
import os
import sys
import json
import time
import hashlib
import traceback
import importlib
import multiprocessing
from collections import Counter

HERE = os.path.dirname(os.path.dirname(os.path.abspath(__file__)))
EVIDENCE_DIR = os.environ.get('VERIF_EVIDENCE_DIR') or os.path.join(HERE, 'evidence')
REPLAY_DIR = os.environ.get('VERIF_REPLAY_DIR') or os.path.join(HERE, 'replays')
KNOWN_FILE = os.path.join(HERE, 'known_findings.json')


class HarnessError(Exception):
    pass


def hexb(b):
    return bytes(b).hex()


def unhex(s):
    return bytes.fromhex(s)


def load_known(pid):
    """Entries of known_findings.json for one property, by status."""
    try:
        with open(KNOWN_FILE) as f:
            data = json.load(f)
    except FileNotFoundError:
        return {}, {}
    known, fixed = {}, {}
    for ent in data.get('findings', []):
        if ent.get('property') != pid:
            continue
        (known if ent.get('status') == 'known' else fixed)[ent['signature']] = ent
    return known, fixed


class Ctx(object):
    """Per-shard collector handed to `run_shard`."""

    MAX_SAMPLES = 4

    def __init__(self, pid, tier, seed, shard, nshards, known_sigs):
        self.pid = pid
        self.tier = tier
        self.seed = seed
        self.shard = shard
        self.nshards = nshards
        self.known_sigs = set(known_sigs)
        self.evaluations = 0
        self.nontrivial = set()
        self.labels = Counter()
        self.samples = []
        self.failures = {}       # sig -> [count, size, case, msg]
        self.excluded_known = Counter()
        self.extra = {}
        self.t0 = time.time()

    # -- sizing -----------------------------------------------------------
    def n(self, quick, thorough):
        """Total case count of a tier, divided over the shards."""
        total = thorough if self.tier == 'thorough' else quick
        per = total // self.nshards
        if self.shard < total % self.nshards:
            per += 1
        return per

    @property
    def thorough(self):
        return self.tier == 'thorough'

    def shard_seed(self, salt=0):
        h = hashlib.sha256(('%d/%d/%d/%s' % (self.seed, self.shard, salt,
                                              self.pid)).encode()).digest()
        return int.from_bytes(h[:8], 'big')

    def mine(self, index):
        """Static slicing of an enumeration over the shards."""
        return index % self.nshards == self.shard

    # -- reporting --------------------------------------------------------
    def record(self, key, nontrivial, labels=(), case=None, failures=()):
        """One evaluated case.

        key: cheap hashable identifying the case (distinctness);
        case: JSON-able concrete case or a zero-argument callable producing
        it (only called when needed: for samples and failures)."""
        self.evaluations += 1
        for lab in labels:
            self.labels[lab] += 1
        if nontrivial:
            self.nontrivial.add(hash(key) & 0xffffffffffffffff)
            if len(self.samples) < self.MAX_SAMPLES and case is not None:
                self.samples.append(case() if callable(case) else case)
        for sig, msg in failures:
            self.fail(sig, case, msg)

    def fail(self, sig, case, msg):
        if callable(case):
            case = case()
        if sig in self.known_sigs:
            self.excluded_known[sig] += 1
            return
        size = len(json.dumps(case, sort_keys=True, default=repr))
        cur = self.failures.get(sig)
        if cur is None:
            self.failures[sig] = [1, size, case, msg]
        else:
            cur[0] += 1
            if size < cur[1]:
                cur[1:] = [size, case, msg]

    def result(self):
        return {
            'shard': self.shard,
            'evaluations': self.evaluations,
            'nontrivial': self.nontrivial,
            'labels': self.labels,
            'samples': self.samples,
            'failures': self.failures,
            'excluded_known': self.excluded_known,
            'extra': self.extra,
            'wall': time.time() - self.t0,
        }


def _quiet():
    import logging
    logging.disable(logging.CRITICAL)
    devnull = os.open(os.devnull, os.O_WRONLY)
    os.dup2(devnull, 1)
    if not os.environ.get('VERIF_DEBUG'):
        os.dup2(devnull, 2)


def _worker(args):
    pid, tier, seed, shard, nshards, known_sigs = args
    try:
        _quiet()
        mod = importlib.import_module('vf.props.' + pid.lower())
        ctx = Ctx(pid, tier, seed, shard, nshards, known_sigs)
        mod.run_shard(ctx)
        return ('ok', ctx.result())
    except BaseException:
        return ('error', 'shard %d: %s' % (shard, traceback.format_exc()))


# -- generic JSON delta debugging -------------------------------------------

def _paths(obj, prefix=()):
    yield prefix, obj
    if isinstance(obj, list):
        for i, v in enumerate(obj):
            for x in _paths(v, prefix + (i,)):
                yield x
    elif isinstance(obj, dict):
        for k in sorted(obj):
            for x in _paths(obj[k], prefix + (k,)):
                yield x


def _set(obj, path, value):
    if not path:
        return value
    obj = json.loads(json.dumps(obj))
    cur = obj
    for p in path[:-1]:
        cur = cur[p]
    cur[path[-1]] = value
    return obj


def _candidates(value):
    """Smaller variants of one JSON value."""
    if isinstance(value, list):
        n = len(value)
        chunk = n // 2
        while chunk >= 1:
            for i in range(0, n, chunk):
                yield value[:i] + value[i + chunk:]
            chunk //= 2
    elif isinstance(value, str):
        step = 2 if (len(value) % 2 == 0 and
                     all(c in '0123456789abcdef' for c in value)) else 1
        n = len(value) // step
        chunk = n // 2
        while chunk >= 1:
            for i in range(0, n, chunk):
                yield value[:i * step] + value[(i + chunk) * step:]
            chunk //= 2
    elif isinstance(value, bool):
        return
    elif isinstance(value, int):
        if value > 0:
            yield 0
            yield value // 2
            yield value - 1


def minimise(case, still_fails, budget_s=20.0):
    """Greedy structural shrinking of a JSON case under a time budget."""
    t0 = time.time()
    size = lambda c: len(json.dumps(c, sort_keys=True))
    improved = True
    while improved and time.time() - t0 < budget_s:
        improved = False
        for path, value in list(_paths(case)):
            # the path may no longer exist after an earlier reduction
            try:
                cur = case
                for p in path:
                    cur = cur[p]
            except (KeyError, IndexError, TypeError):
                continue
            for cand in _candidates(cur):
                if time.time() - t0 > budget_s:
                    return case
                new = _set(case, path, cand)
                if size(new) >= size(case):
                    continue
                try:
                    ok = still_fails(new)
                except Exception:
                    ok = False
                if ok:
                    case = new
                    improved = True
                    break
            if improved:
                break
    return case


class NotReplayable(Exception):
    """The module's replay() refused the case (it is not one its generators produce)."""


def _replay_sigs(mod, case):
    res = mod.replay(case)
    if res is None:
        raise NotReplayable()
    return [sig for sig, _ in res]


def _quiet_hub():
    if os.environ.get('VERIF_DEBUG'):
        return
    try:
        import gevent
        gevent.get_hub().exception_stream = None      # greenlets dying inside slimta are expected in replays
        import logging
        logging.disable(logging.CRITICAL)
    except Exception:
        pass


def run_check(pid, tier, seed, jobs):
    t0 = time.time()
    _quiet_hub()
    mod = importlib.import_module('vf.props.' + pid.lower())
    known, fixed = load_known(pid)
    nshards = max(1, jobs)
    args = [(pid, tier, seed, s, nshards, sorted(known)) for s in range(nshards)]
    if nshards == 1 or os.environ.get('VERIF_INPROC'):
        outs = []
        for a in args:
            ctx = Ctx(*a)
            mod.run_shard(ctx)
            outs.append(('ok', ctx.result()))
    else:
        mp = multiprocessing.get_context('fork')
        with mp.Pool(nshards, maxtasksperchild=1) as pool:
            outs = pool.map(_worker, args, chunksize=1)
    errors = [o[1] for o in outs if o[0] != 'ok']
    if errors:
        sys.stderr.write('HARNESS ERROR in %s\n%s\n' % (pid, '\n'.join(errors)))
        return 2

    evaluations = 0
    nontrivial = set()
    labels = Counter()
    samples = []
    failures = {}
    excluded = Counter()
    extra = {}
    for _, r in outs:
        evaluations += r['evaluations']
        nontrivial |= r['nontrivial']
        labels.update(r['labels'])
        excluded.update(r['excluded_known'])
        if len(samples) < 8:
            samples.extend(r['samples'][:2])
        for k, v in r['extra'].items():
            if isinstance(v, (int, float)) and not isinstance(v, bool):
                extra[k] = extra.get(k, 0) + v
            else:
                extra[k] = v
        for sig, (cnt, size, case, msg) in r['failures'].items():
            cur = failures.get(sig)
            if cur is None:
                failures[sig] = [cnt, size, case, msg]
            else:
                cur[0] += cnt
                if size < cur[1]:
                    cur[1:] = [size, case, msg]

    # known findings: replay the canary of each listed finding
    known_lines = []
    stale_known = []
    for sig, ent in sorted(known.items()):
        canary = ent.get('canary')
        still = True
        if canary is not None:
            try:
                still = sig in _replay_sigs(mod, canary)
            except Exception:
                sys.stderr.write('HARNESS ERROR replaying canary %s\n%s\n'
                                 % (sig, traceback.format_exc()))
                return 2
        if still:
            known_lines.append('KNOWN-FINDING: property=%s %s: %s'
                               % (pid, sig, ent.get('what', '')))
        else:
            stale_known.append(sig)

    # violations: minimise and write replay files
    violation_lines = []
    unconfirmed = []
    if failures:
        os.makedirs(os.path.join(REPLAY_DIR, pid), exist_ok=True)
    budget = float(os.environ.get('VERIF_SHRINK_S', '20' if tier == 'quick' else '90'))
    per = budget / max(1, len(failures))
    for sig, (cnt, size, case, msg) in sorted(failures.items()):
        small = case
        try:
            if sig in _replay_sigs(mod, case):
                def still_fails(c, sig=sig):
                    try:
                        return sig in _replay_sigs(mod, c)
                    except NotReplayable:
                        return False
                small = minimise(case, still_fails, per)
                reproducible = True
            else:
                reproducible = False
        except Exception:
            reproducible = False
        if not reproducible and getattr(mod, 'REALTIME', False):
            # wall-clock check: a failure that three more runs of the same case do not show again is machine load, not a violation
            # (a case that cannot be replayed at all cannot be refuted either: it is reported)
            for _ in range(3):
                try:
                    if sig in _replay_sigs(mod, case):
                        reproducible = True
                        break
                except NotReplayable:
                    reproducible = None
                    break
                except Exception:
                    pass
            if reproducible is None:
                reproducible = False
                refuted = False
            else:
                refuted = not reproducible
            if refuted:
                try:
                    with open(os.path.join(REPLAY_DIR, pid, 'unconfirmed-' + hashlib.sha1(sig.encode()).hexdigest()[:12] + '.json'), 'w') as f:
                        json.dump({'property': pid, 'signature': sig, 'message': msg, 'count': cnt, 'seed': seed, 'tier': tier,
                                   'reproducible_by_replay': False, 'case': case}, f, indent=1, sort_keys=True, default=repr)
                except Exception:
                    pass
                unconfirmed.append({'signature': sig, 'message': msg[:300], 'count': cnt})
                sys.stderr.write('  UNCONFIRMED (wall-clock check, did not reproduce in 4 replays) %s x%d: %s\n' % (sig, cnt, msg[:200]))
                continue
        name = hashlib.sha1(sig.encode()).hexdigest()[:12] + '.json'
        path = os.path.join(REPLAY_DIR, pid, name)
        with open(path, 'w') as f:
            json.dump({'property': pid, 'signature': sig, 'message': msg,
                       'count': cnt, 'seed': seed, 'tier': tier,
                       'reproducible_by_replay': reproducible,
                       'case': small, 'original_case': case}, f, indent=1,
                      sort_keys=True, default=repr)
        violation_lines.append('VIOLATION property=%s replay=%s' % (pid, path))
        sys.stderr.write('  %s x%d: %s\n' % (sig, cnt, msg))

    wall = time.time() - t0
    coverage = {
        'evaluations': evaluations,
        'distinct_nontrivial': len(nontrivial),
        'rule': mod.RULE,
        'samples': samples,
        'classes': dict(sorted(labels.items())),
        'excluded_known': dict(excluded),
        'shards': nshards,
    }
    coverage.update(extra)
    if getattr(mod, 'EXHAUSTIVE_NOTE', None):
        coverage['exhaustive_subdomain'] = mod.EXHAUSTIVE_NOTE
    evidence = {
        'property_id': pid,
        'tier': tier,
        'seed': seed,
        'level': mod.LEVEL,
        'coverage': coverage,
        'assumptions': list(mod.ASSUMPTIONS),
        'wall_s': round(wall, 2),
        'violations': len(violation_lines),
        'unconfirmed_wall_clock_failures': unconfirmed,
        'known_findings_reported': [l.split(' ', 2)[2] for l in known_lines],
    }
    os.makedirs(EVIDENCE_DIR, exist_ok=True)
    tmp = os.path.join(EVIDENCE_DIR, '.%s.tmp' % pid)
    with open(tmp, 'w') as f:
        json.dump(evidence, f, indent=1, default=repr)
    os.replace(tmp, os.path.join(EVIDENCE_DIR, pid + '.json'))

    for l in known_lines:
        print(l)
    for sig in stale_known:
        print('NOTE: property=%s listed finding no longer reproduces: %s' % (pid, sig))
    for l in violation_lines:
        print(l)
    print('%s %s seed=%d: %d cases, %d distinct non-trivial, %d excluded-known, '
          '%d violation signature(s), %.1fs'
          % (pid, tier, seed, evaluations, len(nontrivial),
             sum(excluded.values()), len(violation_lines), wall))
    if violation_lines:
        return 1
    if evaluations == 0 or len(nontrivial) < 2:
        sys.stderr.write('HARNESS ERROR: vacuous run\n')
        return 2
    return 0


def run_replay(path):
    _quiet_hub()
    with open(path) as f:
        data = json.load(f)
    pid = data['property']
    mod = importlib.import_module('vf.props.' + pid.lower())
    res = mod.replay(data['case'])
    if res is None:
        sys.stderr.write('HARNESS ERROR: %s is not a case the check for %s can replay\n' % (path, pid))
        return 2
    known, _ = load_known(pid)
    bad = 0
    for sig, msg in res:
        if sig in known:
            print('KNOWN-FINDING: property=%s %s: %s' % (pid, sig, msg))
        else:
            print('VIOLATION property=%s replay=%s' % (pid, path))
            print('  %s: %s' % (sig, msg))
            bad = 1
    if not res:
        print('replay passes: %s' % path)
    return bad
