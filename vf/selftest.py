"""Sensitivity self-test: every patch in mutants/ and seeded/*/patch.diff must make its property's quick check exit 1."""
import os
import sys
import glob
import subprocess

HERE = os.path.dirname(os.path.dirname(os.path.abspath(__file__)))


def main(argv):
    want = set(a.upper() for a in argv)
    items = []
    for p in sorted(glob.glob(os.path.join(HERE, 'mutants', '*.patch'))):
        items.append((os.path.basename(p).split('_')[0], p))
    for p in sorted(glob.glob(os.path.join(HERE, 'seeded', '*', 'patch.diff'))):
        pid = os.path.basename(os.path.dirname(p)).split('-')[0].split('_')[0]
        try:
            import json
            # a seeded change may be registered under a neighbouring property's check (meta.json: property)
            pid = json.load(open(os.path.join(os.path.dirname(p), 'meta.json'))).get('property', pid)
        except Exception:
            pass
        items.append((pid, p))
    bad = 0
    for pid, patch in items:
        if want and pid not in want:
            continue
        r = subprocess.run([os.path.join(HERE, 'tools', 'try_patch.py'), patch, pid], capture_output=True, text=True)
        status = {1: 'caught', 0: 'MISSED', 2: 'HARNESS-ERROR'}.get(r.returncode, 'exit %d' % r.returncode)
        sigs = sorted(set(l.strip().split(' ')[0] for l in r.stdout.splitlines() if l.startswith('  C')))
        print('%-8s %-60s %s %s' % (pid, os.path.relpath(patch, HERE), status, ' '.join(sigs)[:200]))
        sys.stdout.flush()
        if r.returncode != 1:
            bad += 1
    return 1 if bad else 0
