"""Verification framework for slimta/python-slimta (property-based testing and fuzzing)."""
import os
import sys

REPO = os.environ.get('VERIF_REPO', '/repo')
if REPO not in sys.path:
    sys.path.insert(0, REPO)
_deps = os.path.join(os.path.dirname(os.path.dirname(os.path.abspath(__file__))), '.deps')
if os.path.isdir(_deps) and _deps not in sys.path:
    sys.path.append(_deps)
