"""Synchronous SMTP server sessions on a scripted socket + reference automaton.

Used by C07 (command order / transaction reset) and C09 (segmentation
independence).  Verdicts of the application callbacks are encoded in the
command arguments (`v450`, `v550`, `v421` tokens), so the handlers are pure
functions of what the server shows them and never get out of step with the
generator.
"""
import re
import base64

import slimta.edge.smtp as edge_smtp
from slimta.edge.smtp import SmtpEdge, SmtpValidators
from slimta.smtp.server import Server
from slimta.smtp import ConnectionLost

from vf.transport import ScriptedSocket, WouldBlockForever


class _InertPtr(object):
    def __init__(self, ip):
        pass

    def start(self):
        pass

    def finish(self, **kw):
        return None

    def kill(self, **kw):
        pass


edge_smtp.PtrLookup = _InertPtr       # no DNS in the sandbox (harness-side seam)

VERDICT_RE = re.compile(r'v(421|450|550|451|554|251)')
DATA_VERDICT_RE = re.compile(r'd(421|450|550)')
CONTENT_VERDICT_RE = re.compile(br'X-Verdict: (421|450|550)')


def verdict_of(text):
    m = VERDICT_RE.search(text or '')
    return m.group(1) if m else None


def apply_verdict(reply, code):
    if code:
        reply.code = code
        reply.message = '%s.9.9 verdict %s' % (code[0], code)


class StubContext(object):
    """TLS context whose wrap_socket returns the same socket (encryption itself is C08's)."""

    def wrap_socket(self, sock, server_side=False, **kw):
        return sock

    def session_stats(self):
        return {}


class BareHandlers(object):
    """Recording handler object for slimta.smtp.server.Server."""

    def __init__(self, sock, banner_verdict=None):
        self.sock = sock
        self.trace = []
        self.banner_verdict = banner_verdict
        self.data_verdict = None

    def _rec(self, name, *args):
        self.trace.append((name, args, sum(len(o) for o in self.sock.out)))

    def BANNER_(self, reply):
        self._rec('BANNER')
        apply_verdict(reply, self.banner_verdict)

    def EHLO(self, reply, ehlo_as):
        self._rec('EHLO', ehlo_as)
        apply_verdict(reply, verdict_of(ehlo_as))

    def HELO(self, reply, helo_as):
        self._rec('HELO', helo_as)
        apply_verdict(reply, verdict_of(helo_as))

    def MAIL(self, reply, address, params):
        self._rec('MAIL', address)
        apply_verdict(reply, verdict_of(address))

    def RCPT(self, reply, address, params):
        self._rec('RCPT', address)
        v = verdict_of(address)
        apply_verdict(reply, v)
        if not v or v[0] == '2':
            m = DATA_VERDICT_RE.search(address)
            self.data_verdict = m.group(1) if m else None

    def DATA(self, reply):
        self._rec('DATA')
        apply_verdict(reply, self.data_verdict)

    def HAVE_DATA(self, reply, data, err):
        self._rec('HAVE_DATA', data, type(err).__name__ if err else None)
        if err:
            reply.code = '552'
            reply.message = '5.3.4 too big'
            return
        m = CONTENT_VERDICT_RE.search(data or b'')
        apply_verdict(reply, m.group(1).decode() if m else None)

    def RSET(self, reply):
        self._rec('RSET')

    def NOOP(self, reply):
        self._rec('NOOP')

    def QUIT(self, reply):
        self._rec('QUIT')

    def STARTTLS(self, reply, extensions):
        self._rec('STARTTLS')

    def TLSHANDSHAKE(self, *args):
        self._rec('TLSHANDSHAKE', len(args))

    def AUTH(self, reply, creds):
        self._rec('AUTH', creds.authcid, getattr(creds, 'secret', None), creds.authzid)
        if creds.authcid.startswith('bad'):
            reply.code = '535'
            reply.message = '5.7.8 no'

    def CLOSE(self, *args):
        self._rec('CLOSE', len(args))

    def VRFY(self, reply, arg, server):
        self._rec('VRFY', arg)
        reply.code = '252'
        reply.message = '2.0.0 maybe'


class CaptureQueue(object):
    def __init__(self):
        self.envelopes = []

    def enqueue(self, envelope):
        self.envelopes.append(envelope)
        return [(envelope, 'id%d' % len(self.envelopes))]


def make_validators(trace, sock, banner_verdict):
    class Validators(SmtpValidators):
        def _rec(self, name, *args):
            trace.append((name, args, sum(len(o) for o in sock.out)))

        def handle_banner(self, reply, address):
            self._rec('BANNER')
            apply_verdict(reply, banner_verdict)

        def handle_ehlo(self, reply, ehlo_as):
            self._rec('EHLO', ehlo_as)
            apply_verdict(reply, verdict_of(ehlo_as))

        def handle_helo(self, reply, helo_as):
            self._rec('HELO', helo_as)
            apply_verdict(reply, verdict_of(helo_as))

        def handle_mail(self, reply, address, params):
            # MAIL is only valid outside a transaction: whatever an earlier (completed, rejected, reset) transaction left in
            # session.envelope - the documented way for validators to look at the transaction - must be gone by now
            env = getattr(self.session, 'envelope', None)
            if env is not None:
                self._rec('STALE', env.sender, tuple(env.recipients))
            self._rec('MAIL', address)
            apply_verdict(reply, verdict_of(address))

        def handle_rcpt(self, reply, address, params):
            self._rec('RCPT', address)
            v = verdict_of(address)
            apply_verdict(reply, v)
            if not v or v[0] == '2':
                m = DATA_VERDICT_RE.search(address)
                self.data_verdict = m.group(1) if m else None

        def handle_data(self, reply):
            self._rec('DATA')
            apply_verdict(reply, getattr(self, 'data_verdict', None))

        def handle_have_data(self, reply, data):
            self._rec('HAVE_DATA', data, None)
            m = CONTENT_VERDICT_RE.search(data or b'')
            apply_verdict(reply, m.group(1).decode() if m else None)

        def handle_auth(self, reply, creds):
            self._rec('AUTH', creds.authcid, getattr(creds, 'secret', None), creds.authzid)
            if creds.authcid.startswith('bad'):
                reply.code = '535'
                reply.message = '5.7.8 no'

        def handle_tls(self):
            self._rec('TLSHANDSHAKE', 0)
    return Validators


class Config(object):
    def __init__(self, auth=True, size=None, starttls=True, banner_verdict=None, layer='bare'):
        self.auth = auth
        self.size = size
        self.starttls = starttls
        self.banner_verdict = banner_verdict
        self.layer = layer

    def key(self):
        return (self.auth, self.size, self.starttls, self.banner_verdict, self.layer)

    def json(self):
        return {'auth': self.auth, 'size': self.size, 'starttls': self.starttls,
                'banner_verdict': self.banner_verdict, 'layer': self.layer}

    @classmethod
    def from_json(cls, d):
        return cls(bool(d.get('auth')), d.get('size'), bool(d.get('starttls')), d.get('banner_verdict'),
                   d.get('layer', 'bare'))


class SessionResult(object):
    pass


def run_session(segments, cfg):
    """Run one server session synchronously; returns SessionResult with output, trace, envelopes, error."""
    sock = ScriptedSocket(segments)
    res = SessionResult()
    res.sock = sock
    res.error = None
    res.envelopes = []
    ctx = StubContext() if cfg.starttls else None
    try:
        if cfg.layer == 'bare':
            handlers = BareHandlers(sock, cfg.banner_verdict)
            res.trace = handlers.trace
            server = Server(sock, handlers, ('10.1.2.3', 4567), auth=cfg.auth, context=ctx)
            if cfg.size:
                server.extensions.add('SIZE', cfg.size)
            try:
                server.handle()
            except ConnectionLost:
                pass
        else:
            trace = []
            res.trace = trace
            queue = CaptureQueue()
            res.envelopes = queue.envelopes
            edge = SmtpEdge(None, queue, max_size=cfg.size, auth=cfg.auth, context=ctx, hostname='edge.verif',
                            validator_class=make_validators(trace, sock, cfg.banner_verdict))
            edge.handle(sock, ('10.1.2.3', 4567))
    except WouldBlockForever:
        res.error = 'blocked'
    except Exception as e:
        res.error = e
    res.output = sock.output()
    return res


# -- reply stream parsing -------------------------------------------------------

_REPLY_LINE = re.compile(br'(\d\d\d)([ -])(.*?)\r\n', re.S)


def parse_replies(output):
    """-> (list of (code, [lines], end_offset), garbage_tail)"""
    replies = []
    pos = 0
    cur = None
    lines = []
    while pos < len(output):
        if output[pos:pos + 2] == b'\r\n' and cur is None:
            pos += 2          # newline_first of asynchronous replies
            continue
        m = _REPLY_LINE.match(output, pos)
        if not m:
            return replies, output[pos:]
        code = m.group(1).decode()
        if cur is not None and code != cur:
            return replies, output[pos:]
        cur = code
        lines.append(m.group(3))
        pos = m.end()
        if m.group(2) == b' ':
            replies.append((code, lines, pos))
            cur = None
            lines = []
    if cur is not None:
        return replies, b'<unterminated multi-line reply>'
    return replies, b''


# -- items: the command alphabet ------------------------------------------------

def b64(s):
    return base64.b64encode(s)


def frame_content(content):
    """Reference DATA framing (independent of DataSender): terminate, dot-stuff every line start (after LF)."""
    if content and not content.endswith(b'\r\n'):
        content += b'\r\n'
    return re.sub(br'(^|\n)\.', br'\1..', content) + b'.\r\n'


def content_after_framing(content):
    if content and not content.endswith(b'\r\n'):
        return content + b'\r\n'
    return content


class Item(object):
    """One client command (with its continuation lines / message content)."""

    def __init__(self, kind, line, content=None, cont=(), label=None):
        self.kind = kind          # EHLO HELO MAIL RCPT DATA RSET NOOP QUIT STARTTLS AUTH UNKNOWN NONE VRFY LOOKALIKE
        self.line = line
        self.content = content    # DATA only
        self.cont = list(cont)    # AUTH continuation lines
        self.label = label or kind

    def json(self):
        return {'kind': self.kind, 'line': self.line.hex(),
                'content': None if self.content is None else self.content.hex(),
                'cont': [c.hex() for c in self.cont], 'label': self.label}

    @classmethod
    def from_json(cls, d):
        return cls(d['kind'], bytes.fromhex(d['line']),
                   None if d.get('content') is None else bytes.fromhex(d['content']),
                   [bytes.fromhex(c) for c in d.get('cont', [])], d.get('label'))


PLAIN_OK = b64(b'\x00user\x00pass')
PLAIN_BAD = b64(b'\x00baduser\x00pass')

ALPHABET = [
    Item('EHLO', b'EHLO client.example'),
    Item('EHLO', b'EHLO v550.example', label='EHLO/550'),
    Item('EHLO', b'EHLO v421.example', label='EHLO/421'),
    Item('EHLO', b'EHLO', label='EHLO-noarg'),
    Item('HELO', b'HELO client.example'),
    Item('HELO', b'HELO v450.example', label='HELO/450'),
    Item('MAIL', b'MAIL FROM:<s@x.org>'),
    Item('MAIL', b'MAIL FROM:<>', label='MAIL-null'),
    Item('MAIL', b'mail from:<s2@x.org>', label='mail-lower'),
    Item('MAIL', b'MAIL FROM:<v450@x.org>', label='MAIL/450'),
    Item('MAIL', b'MAIL FROM:<v550@x.org>', label='MAIL/550'),
    Item('MAIL', b'MAIL FROM:<v421@x.org>', label='MAIL/421'),
    Item('MAIL', b'MAIL FROM:s@x.org', label='MAIL-noangle'),
    Item('MAIL', b'MAIL FROM:<s@x.org', label='MAIL-noclose'),
    Item('MAIL', b'MAIL TO:<s@x.org>', label='MAIL-to'),
    Item('MAIL', b'MAIL', label='MAIL-noarg'),
    Item('MAIL', b'MAIL FROM:<s@x.org> SIZE=10', label='MAIL-size-ok'),
    Item('MAIL', b'MAIL FROM:<s@x.org> SIZE=99999', label='MAIL-size-big'),
    Item('MAIL', b'MAIL FROM:<s@x.org> SIZE=abc', label='MAIL-size-bad'),
    Item('RCPT', b'RCPT TO:<r1@y.org>'),
    Item('RCPT', b'RCPT TO:<r2@y.org>', label='RCPT2'),
    Item('RCPT', b'RCPT TO:<v450@y.org>', label='RCPT/450'),
    Item('RCPT', b'RCPT TO:<v550@y.org>', label='RCPT/550'),
    Item('RCPT', b'RCPT TO:<v421@y.org>', label='RCPT/421'),
    Item('RCPT', b'RCPT TO:<v251@y.org>', label='RCPT/251'),        # "user not local; will forward": a positive reply
    Item('RCPT', b'RCPT TO:<r-d550@y.org>', label='RCPT-then-DATA/550'),
    Item('RCPT', b'RCPT FROM:<r@y.org>', label='RCPT-from'),
    Item('RCPT', b'RCPT TO:r@y.org', label='RCPT-noangle'),
    Item('RCPT', b'RCPT', label='RCPT-noarg'),
    Item('MAIL', b'MAIL', label='MAIL-noarg'),
    Item('DATA', b'DATA', content=b'Subject: t\r\n\r\nbody\r\n'),
    Item('DATA', b'DATA', content=b'Subject: t\r\nX-Verdict: 550\r\n\r\nbody\r\n', label='DATA-msg/550'),
    Item('DATA', b'DATA', content=b'Subject: t\r\nX-Verdict: 450\r\n\r\nbody\r\n', label='DATA-msg/450'),
    Item('DATA', b'DATA', content=b'Subject: t\r\nX-Verdict: 421\r\n\r\nbody\r\n', label='DATA-msg/421'),
    Item('DATA', b'DATA', content=b'', label='DATA-empty'),
    Item('DATA', b'DATA', content=b'Subject: t\r\n\r\n .\r\nMAIL FROM:<evil@x.org>\r\n\t.\r\nRSET\r\n', label='DATA-blank-dot'),
    Item('DATA', b'DATA now', label='DATA-arg'),
    Item('RSET', b'RSET'),
    Item('RSET', b'RSET x', label='RSET-arg'),
    Item('NOOP', b'NOOP'),
    Item('QUIT', b'QUIT'),
    Item('QUIT', b'QUIT now', label='QUIT-arg'),
    Item('STARTTLS', b'STARTTLS'),
    Item('STARTTLS', b'STARTTLS x', label='STARTTLS-arg'),
    Item('AUTH', b'AUTH PLAIN ' + PLAIN_OK, label='AUTH-plain'),
    Item('AUTH', b'AUTH PLAIN ' + PLAIN_BAD, label='AUTH-plain/535'),
    Item('AUTH', b'AUTH LOGIN', cont=[b64(b'user'), b64(b'pass')], label='AUTH-login'),
    Item('AUTH', b'AUTH PLAIN', cont=[b'*'], label='AUTH-cancel'),
    Item('AUTH', b'AUTH FOO', label='AUTH-unknown'),
    Item('UNKNOWN', b'FOOBAR arg'),
    Item('VRFY', b'VRFY someone'),
    Item('LOOKALIKE', b'CLOSE'),
    Item('LOOKALIKE', b'TLSHANDSHAKE', label='LOOKALIKE-tls'),
    Item('NONE', b'123 456', label='GARBAGE'),
    # malformed variants: an argument that is not valid UTF-8
    Item('MAIL', b'MAIL FROM:<\xff\xfe@x.org>', label='MAIL-badutf8'),
    Item('RCPT', b'RCPT TO:<r\xff@y.org>', label='RCPT-badutf8'),
    Item('EHLO', b'EHLO \xffclient', label='EHLO-badutf8'),
    Item('NONE', b'', label='EMPTY'),
    Item('NONE', b' NOOP', label='LEADSPACE'),
]
ALPHA_BY_LABEL = dict((i.label, i) for i in ALPHABET)


def build_stream(items, expectations):
    """Client byte stream; DATA content / AUTH continuations only where the model expects them to be asked for."""
    lines = []       # list of byte strings, one per logical line group (cut points for per-line segmentation)
    for item, exp in zip(items, expectations):
        lines.append(item.line + b'\r\n')
        if exp is not None and exp.get('sends_content') and item.content is not None:
            lines.append(frame_content(item.content))
        if exp is not None and exp.get('sends_cont'):
            for c in item.cont[:exp['sends_cont']]:
                lines.append(c + b'\r\n')
    return lines


# -- reference automaton --------------------------------------------------------

FIVE = 'any5xx'
MAILRE = re.compile(br'^[fF][rR][oO][mM]:\s*<(.*?)>(.*)$', re.S)
RCPTRE = re.compile(br'^[tT][oO]:\s*<(.*?)>(.*)$', re.S)


class Model(object):
    """Reference SMTP session automaton written from the statement of C07."""

    def __init__(self, cfg):
        self.cfg = cfg
        self.bannered = cfg.banner_verdict is None
        self.ended = cfg.banner_verdict in ('421',)
        self.ident = None
        self.ext = set()
        self.mail = False
        self.rcpt = False
        self.authed = False
        self.sender = None
        self.rcpts = []
        self.data_verdict = None
        self.gray = False       # outcome of transaction commands not pinned down by the statement
        self.ext_gray = False   # a HELO was accepted: extension-dependent commands are not pinned down
        self.messages = []      # (sender, rcpts, content) expected at the queue / HAVE_DATA

    def _full_ext(self):
        e = set()
        if self.cfg.auth:
            e.add('AUTH')
        if self.cfg.starttls and not getattr(self, 'tls_done', False):
            e.add('STARTTLS')
        if self.cfg.size:
            e.add('SIZE')
        return e

    def _reset_tx(self):
        self.mail = False
        self.rcpt = False
        self.sender = None
        self.rcpts = []
        self.data_verdict = None
        self.gray = False

    def _end_if(self, code):
        if code in ('221', '421'):
            self.ended = True

    def step(self, item):
        """-> expectation dict, or None when the session has ended / is in a gray state."""
        if self.ended:
            return {'replies': [], 'cbs': [], 'after_end': True}
        k = item.kind
        arg = item.line.split(None, 1)[1] if len(item.line.split(None, 1)) > 1 else None
        if arg is not None:
            arg = arg.rstrip()
        exp = {'replies': [], 'cbs': []}

        def err():
            exp['replies'] = [FIVE]
            return exp

        if k in ('EHLO', 'HELO'):
            if not self.bannered or not arg:
                return err()
            try:
                name = arg.decode('utf-8')
            except UnicodeDecodeError:
                return err()
            v = verdict_of(name)
            exp['cbs'] = [(k, (name,))]
            exp['replies'] = [v or '250']
            if not v:
                self.ident = k
                self._reset_tx()
                self.ext = self._full_ext() if k == 'EHLO' else set()
                if k == 'HELO':
                    self.ext_gray = True
            self._end_if(v)
            return exp
        if k == 'MAIL':
            m = MAILRE.match(arg or b'')
            if not m or not self.ident:
                return err()
            try:
                m.group(1).decode('utf-8')
            except UnicodeDecodeError:
                return err()
            if self.gray:
                return None
            if self.mail:
                return err()
            params = m.group(2)
            sm = re.search(br'SIZE=(\S+)', params)
            if sm and self.ext_gray:
                return None
            if sm:
                if not sm.group(1).isdigit() or 'SIZE' not in self.ext or int(sm.group(1)) > self.cfg.size:
                    return err()
            addr = m.group(1).decode('utf-8')
            v = verdict_of(addr)
            exp['cbs'] = [('MAIL', (addr,))]
            exp['replies'] = [v or '250']
            if not v:
                self.mail = True
                self.sender = addr
            self._end_if(v)
            return exp
        if k == 'RCPT':
            m = RCPTRE.match(arg or b'')
            if not m:
                return err()
            try:
                m.group(1).decode('utf-8')
            except UnicodeDecodeError:
                return err()
            if self.gray:
                return None
            if not self.mail:
                return err()
            addr = m.group(1).decode('utf-8')
            v = verdict_of(addr)
            exp['cbs'] = [('RCPT', (addr,))]
            exp['replies'] = [v or '250']
            if not v or v[0] == '2':
                self.rcpt = True
                self.rcpts.append(addr)
                dm = DATA_VERDICT_RE.search(addr)
                self.data_verdict = dm.group(1) if dm else None
            self._end_if(v)
            return exp
        if k == 'DATA':
            if arg:
                return err()
            if self.gray:
                return None
            if not (self.mail and self.rcpt):
                return err()
            exp['cbs'] = [('DATA', ())]
            if self.data_verdict:
                exp['replies'] = [self.data_verdict]
                self.gray = True        # a rejected DATA *command*: transaction state not pinned down
                self._end_if(self.data_verdict)
                return exp
            content = content_after_framing(item.content or b'')
            cm = CONTENT_VERDICT_RE.search(content)
            final = cm.group(1).decode() if cm else '250'
            exp['sends_content'] = True
            if self.cfg.size and self.ext_gray and len(frame_content(item.content or b'')) - 3 > self.cfg.size:
                return None
            if self.cfg.size and len(frame_content(item.content or b'')) - 3 > self.cfg.size:
                # over the SIZE limit: one 552, the content is not a message and not commands
                exp['replies'] = ['354', '552']
                if self.cfg.layer != 'edge':
                    exp['cbs'].append(('HAVE_DATA', (None, 'MessageTooBig')))
                self._reset_tx()
                return exp
            exp['replies'] = ['354', final]
            exp['cbs'].append(('HAVE_DATA', (content, None)))
            self.messages.append((self.sender, list(self.rcpts), content, final))
            self._reset_tx()
            self._end_if(final)
            return exp
        edge = self.cfg.layer == 'edge'
        if k == 'RSET':
            if arg:
                return err()
            exp['cbs'] = [] if edge else [('RSET', ())]
            exp['replies'] = ['250']
            self._reset_tx()
            return exp
        if k == 'NOOP':
            exp['cbs'] = [] if edge else [('NOOP', ())]
            exp['replies'] = ['250']
            return exp
        if k == 'QUIT':
            if arg:
                return err()
            exp['cbs'] = [] if edge else [('QUIT', ())]
            exp['replies'] = ['221']
            self.ended = True
            return exp
        if k == 'STARTTLS':
            if self.ext_gray and self.cfg.starttls:
                return None
            if 'STARTTLS' not in self.ext or arg or not self.ident:
                return err()
            exp['cbs'] = [] if edge else [('STARTTLS', ())]
            exp['replies'] = ['220']
            self.tls_done = True
            self.ident = None
            self.ext = self.ext - {'STARTTLS'}
            self._reset_tx()
            return exp
        if k == 'AUTH':
            if (self.ext_gray and self.cfg.auth) or getattr(self, 'auth_gray', False):
                return None
            if 'AUTH' not in self.ext or not self.ident or self.authed:
                return err()
            if self.gray:
                return None
            if self.mail:
                return err()
            # the AUTH exchange itself is C08's: here only its position in the session is judged
            exp['auth'] = item.label
            self.auth_gray = True
            return exp
        if k == 'VRFY':
            if edge:
                return err()
            exp['replies'] = ['252']
            exp['cbs'] = [('VRFY', (arg,))]
            return exp
        if k == 'LOOKALIKE':
            exp['replies'] = ['any']
            exp['lookalike'] = True
            return exp
        return err()      # UNKNOWN, NONE


def predict(items, cfg):
    model = Model(cfg)
    exps = []
    for it in items:
        try:
            exps.append(model.step(it))
        except UnicodeDecodeError:
            exps.append({'replies': [FIVE], 'cbs': [], 'may_abort': True})
            model.ended = True
        if exps[-1] is None:
            # gray state: the stream is cut here (nothing after it is sent or judged)
            exps.pop()
            items = items[:len(exps)]
            break
        if exps[-1].get('auth'):
            _predict_auth(model, items[len(exps) - 1], exps[-1])
    return items[:len(exps)], exps, model


def _predict_auth(model, item, exp):
    """Expected shape of the AUTH exchanges used by the C07 alphabet."""
    lab = exp['auth']
    if lab == 'AUTH-plain':
        exp['replies'] = [('235', FIVE)]
        exp['auth_cb'] = ('user', 'pass', '')
    elif lab == 'AUTH-plain/535':
        exp['replies'] = [('535', FIVE)]
        exp['auth_cb'] = ('baduser', 'pass', '')
    elif lab == 'AUTH-login':
        exp['replies'] = ['334', '334', ('235', FIVE)]
        exp['sends_cont'] = 2
        exp['auth_cb'] = ('user', 'pass', None)
        exp['auth_flow'] = True
    elif lab == 'AUTH-cancel':
        exp['replies'] = ['334', FIVE]
        exp['sends_cont'] = 1
        exp['auth_flow'] = True
    else:
        exp['replies'] = [FIVE]


def code_ok(want, got):
    if isinstance(want, tuple):
        return any(code_ok(w, got) for w in want)
    if want == FIVE:
        return got.startswith('5')
    if want == 'any':
        return True
    return want == got


def judge_session(items, exps, model, res, cfg, prefix='C07'):
    """Lock-step comparison of the observed reply stream / callback trace with the automaton."""
    out = []
    desc = ' | '.join(i.label for i in items)
    replies, garbage = parse_replies(res.output)
    if res.error is not None and res.error != 'blocked':
        # an exception may leave handle() only after the client was told (421), or after the 501 for undecodable arguments
        told = replies and (replies[-1][0] == '421' or
                            (isinstance(res.error, UnicodeDecodeError) and replies[-1][0] == '501'))
        if not told:
            return [('%s:session-exception:%s' % (prefix, type(res.error).__name__),
                     '%s: %r' % (desc, res.error))]
    replies, garbage = parse_replies(res.output)
    if garbage:
        return [('%s:unparsable-output' % prefix, '%s: %r' % (desc, garbage[:60]))]
    # banner
    want_banner = cfg.banner_verdict or '220'
    if not replies or replies[0][0] != want_banner:
        return [('%s:banner' % prefix, '%s: %r' % (desc, replies[:1]))]
    ends = [r[2] for r in replies]
    ri = 1
    stale = [t for t in res.trace if t[0] == 'STALE']
    if stale:
        return [('%s:transaction-not-forgotten:edge' % prefix, '%s: when the MAIL validator ran, session.envelope still held %r'
                 % (desc, stale[0][1]))]
    trace = [t for t in res.trace if t[0] not in ('BANNER', 'CLOSE', 'TLSHANDSHAKE')]
    ti = 0
    ended = want_banner in ('221', '421')
    early_end = False
    for idx, (item, exp) in enumerate(zip(items, exps)):
        here = '%s @%d(%s)' % (desc, idx, item.label)
        if exp.get('after_end') or ended:
            if ri < len(replies):
                out.append(('%s:reply-after-session-end' % prefix, '%s: %r' % (here, replies[ri][:2])))
            break
        first = ri
        got_codes = []
        for j, want in enumerate(exp['replies']):
            if ri >= len(replies):
                out.append(('%s:missing-reply:%s' % (prefix, item.kind),
                            '%s: wanted %r, output ended (replies so far %r)' % (here, want, got_codes)))
                return out
            code = replies[ri][0]
            got_codes.append(code)
            ri += 1
            if want == FIVE and code == '421':
                ended = True          # an error reply that also ends the session
                early_end = True
                break
            if not code_ok(want, code):
                cls = 'callback-command-rejected' if exp['cbs'] and code.startswith('5') and want != FIVE else \
                    ('illegal-command-accepted' if want == FIVE else 'wrong-reply')
                out.append(('%s:%s:%s' % (prefix, cls, item.kind), '%s: wanted %r got %r' % (here, want, code)))
                return out
            if code in ('221', '421'):
                ended = True
                break
            if exp.get('auth_flow') and code.startswith('5'):
                break
            if exp.get('auth') and isinstance(want, tuple) and code.startswith('5'):
                break
        # callbacks made while this command was being handled
        lo = ends[first - 1]
        hi = ends[ri - 1]
        mine = []
        while ti < len(trace) and trace[ti][2] < hi:
            mine.append(trace[ti])
            ti += 1
        names = [(t[0], t[1]) for t in mine]
        if exp.get('lookalike'):
            if any(n in ('MAIL', 'RCPT', 'DATA', 'HAVE_DATA') for n, _ in names):
                out.append(('%s:lookalike-reached-callback' % prefix, '%s: %r' % (here, names)))
                return out
            continue
        if exp.get('auth'):
            bad = [n for n, _ in names if n != 'AUTH']
            got235 = got_codes and got_codes[-1] == '235'
            if bad or (got235 and not names):
                out.append(('%s:auth-callbacks' % prefix, '%s: %r codes %r' % (here, names, got_codes)))
                return out
            if got235:
                model_authed = True
            continue
        want_cbs = exp['cbs']
        ok = len(names) == len(want_cbs)
        if ok:
            for (gn, ga), (wn, wa) in zip(names, want_cbs):
                if gn != wn or (wa is not None and tuple(ga) != tuple(wa)):
                    ok = False
        if not ok:
            cls = 'callback-on-illegal-command' if not want_cbs else 'callback-trace'
            out.append(('%s:%s:%s' % (prefix, cls, item.kind),
                        '%s: callbacks %r expected %r' % (here, [(n, _short(a)) for n, a in names],
                                                          [(n, _short(a)) for n, a in want_cbs])))
            return out
    else:
        if ri < len(replies) and not ended:
            out.append(('%s:extra-replies' % prefix, '%s: %r' % (desc, [r[0] for r in replies[ri:]])))
        if ti < len(trace):
            out.append(('%s:extra-callbacks' % prefix, '%s: %r' % (desc, [t[0] for t in trace[ti:]])))
    # envelopes handed to the queue (edge layer)
    if cfg.layer == 'edge' and not out:
        want = [(s, r, c) for (s, r, c, final) in model.messages if final == '250']
        got = [(e.sender, list(e.recipients), b''.join(e.flatten())) for e in res.envelopes]
        full = len(exps) == len(items) and not any(e.get('after_end') for e in exps) and not early_end
        if [(s, r) for s, r, _ in got] != [(s, r) for s, r, _ in want][:len(got)] or \
                (full and len(got) != len(want)):
            out.append(('%s:queued-envelope' % prefix, '%s: got %r want %r'
                        % (desc, [(s, r) for s, r, _ in got], [(s, r) for s, r, _ in want])))
    return out


def _short(a):
    if a is None:
        return None
    return tuple((x[:20] if isinstance(x, (bytes, str)) else x) for x in a)
