"""C01, relay-kinds engine: the real Queue (virtual time, ungated dict storage) in front of the real relays
(StaticSmtpRelay, StaticLmtpRelay, PipeRelay in both modes, HttpRelay) and scripted downstreams.

Oracle: after the run every recipient of the accepted message was either accepted by the downstream or named in a
bounce handed to the bounce queue (if the sender is non-empty), and the message has left storage; nobody is both.
"""
import os
import re
import time
import stat
import shutil
import tempfile

import gevent
from gevent.server import StreamServer
from hypothesis import strategies as st

from vf import qm
from vf.peers import StagePeer, StubClientContext, kill_relay

from slimta.queue import Queue
from slimta.queue.dict import DictStorage
from slimta.envelope import Envelope
from slimta.relay.smtp.static import StaticSmtpRelay, StaticLmtpRelay
from slimta.relay.pipe import PipeRelay
from slimta.relay.http import HttpRelay


class Bounces(object):
    def __init__(self):
        self.items = []

    def enqueue(self, envelope):
        self.items.append(envelope)
        return [(envelope, 'b%d' % len(self.items))]


def run_case(case):
    """case: kind, nrcpt, sender(bool), backoff table, rounds: list of per-attempt downstream behaviour."""
    qm.CLOCK.now = 1000.0
    qm.CLOCK.timers = []
    qm.GSHIM.spawned = []
    kind = case['kind']
    rounds = case['rounds']
    n = case['nrcpt']
    rcpts = ['r%d@d.example' % i for i in range(n)]
    sender = 'sender@s.example' if case['sender'] else ''
    accepted = {}           # rcpt -> times accepted downstream
    tmp = None
    servers = []
    peers = []
    attempt_no = [0]

    def beh(k):
        return rounds[k] if k < len(rounds) else {'all': 'ok'}

    if kind in ('smtp', 'lmtp'):
        def creator(address):
            b = beh(len(peers))
            script = {}
            for i in range(n):
                v = b.get('r%d' % i, b.get('all', 'ok'))
                if v in ('rcpt4', 'rcpt5'):
                    script['RCPT%d' % i] = '4xx' if v == 'rcpt4' else '5xx'
                if kind == 'lmtp' and v in ('eod4', 'eod5'):
                    script['EOD%d' % i] = '4xx' if v == 'eod4' else '5xx'       # index among accepted: approximated below
            w = b.get('whole')
            if w:
                script[{'mail5': 'MAIL', 'data4': 'DATA', 'eod4': 'EOD', 'eod5': 'EOD', 'drop': 'DATA', 'banner4': 'banner'}[w]] = \
                    {'mail5': '5xx', 'data4': '4xx', 'eod4': '4xx', 'eod5': '5xx', 'drop': 'disconnect', 'banner4': '4xx'}[w]
            if kind == 'lmtp' and script.get('EOD'):
                for i in range(n):
                    script['EOD%d' % i] = script['EOD']
            if case.get('no8bit'):
                p = StagePeer(script, lmtp=(kind == 'lmtp'), exts=('PIPELINING', 'ENHANCEDSTATUSCODES'))     # no 8BITMIME: the relay converts
            else:
                p = StagePeer(script, lmtp=(kind == 'lmtp'))
            peers.append(p)
            return p
        cls = StaticLmtpRelay if kind == 'lmtp' else StaticSmtpRelay
        from email.encoders import encode_base64
        relay = cls('peer.example', 25, socket_creator=creator, context=StubClientContext(), ehlo_as='q.example',
                    binary_encoder=(encode_base64 if case.get('no8bit') else None))
    elif kind in ('pipe', 'pipe-one'):
        tmp = tempfile.mkdtemp(prefix='vfrk_')
        prog = os.path.join(tmp, 'deliver.sh')
        # behaviour table: line k = "<rcpt-prefix> <status> <text>" for the k-th invocation of that recipient
        lines = ['#!/bin/sh', 'cat >/dev/null', 'r="$1"', 'f="%s/count.$r"' % tmp, 'k=$(cat "$f" 2>/dev/null || echo 0)',
                 'echo $((k+1)) > "$f"']
        for i in range(n):
            for k in range(len(rounds) + 1):
                v = beh(k).get('r%d' % i, beh(k).get('all', 'ok'))
                st_, text = {'ok': (0, ''), 'rcpt4': (75, '4.2.0 busy'), 'rcpt5': (1, '5.1.1 unknown user'), 'eod4': (75, 'later'),
                             'eod5': (2, '5.2.2 full')}.get(v, (0, ''))
                if beh(k).get('whole') in ('data4', 'eod4', 'drop', 'banner4'):
                    st_, text = 75, '4.3.0 whole failure'
                elif beh(k).get('whole') in ('mail5', 'eod5'):
                    st_, text = 1, '5.3.0 whole failure'
                if v == 'hang' and not beh(k).get('whole'):
                    # the delivery program never finishes for this recipient: the relay's timeout has to end the attempt
                    lines.append('if [ "$r" = "r%d@d.example" ] && [ "$k" = "%d" ]; then sleep 30; exit 75; fi' % (i, k))
                    continue
                lines.append('if [ "$r" = "r%d@d.example" ] && [ "$k" = "%d" ]; then echo "%s"; [ %d = 0 ] && echo ok >> "%s/accepted.$r"; exit %d; fi'
                             % (i, k, text, st_, tmp, st_))
        lines.append('echo ok >> "%s/accepted.$r"; exit 0' % tmp)
        with open(prog, 'w') as f:
            f.write('\n'.join(lines) + '\n')
        os.chmod(prog, os.stat(prog).st_mode | stat.S_IEXEC)
        hangs = any(v == 'hang' for b in rounds for v in b.values())
        relay = PipeRelay([prog, '{recipient}'], timeout=(0.4 if hangs else 20))
        relay.per_recipient = kind == 'pipe'
        if kind == 'pipe-one':
            rcpts = rcpts[:1]
            n = 1
    else:   # http
        reqs = []

        def handle(sock, addr):
            try:
                f = sock.makefile('rb')
                f.readline()
                hdrs = {}
                while True:
                    h = f.readline()
                    if h in (b'\r\n', b''):
                        break
                    k, _, v = h.partition(b':')
                    hdrs[k.strip().lower()] = v.strip()
                f.read(int(hdrs.get(b'content-length', b'0')))
                b = beh(len(reqs))
                reqs.append(b)
                w = b.get('whole') or {'ok': None}.get(b.get('all', 'ok'), b.get('all'))
                if w == 'drop':
                    return
                if w in ('mail5', 'eod5', 'rcpt5'):
                    out = b'HTTP/1.1 500 X\r\nX-Smtp-Reply: 550; message="5.0.0 no"\r\nContent-Length: 0\r\n\r\n'
                elif w in ('data4', 'eod4', 'banner4', 'rcpt4'):
                    out = b'HTTP/1.1 503 X\r\nX-Smtp-Reply: 450; message="4.0.0 later"\r\nContent-Length: 0\r\n\r\n'
                else:
                    out = b'HTTP/1.1 200 OK\r\nX-Smtp-Reply: 250; message="2.0.0 ok"\r\nContent-Length: 0\r\n\r\n'
                    for r in rcpts:
                        accepted[r] = accepted.get(r, 0) + 1
                sock.sendall(out)
            except Exception:
                pass
            finally:
                sock.close()
        srv = StreamServer(('127.0.0.1', 0), handle)
        srv.start()
        servers.append(srv)
        relay = HttpRelay('http://127.0.0.1:%d/' % srv.server_port, timeout=5, ehlo_as='q.example')

    env = Envelope(sender, list(rcpts))
    original = b'Subject: rk\r\nX-Tag: rk\r\n\r\nbody\r\n'
    if case.get('no8bit'):
        original = b'Subject: rk\r\nX-Tag: rk\r\nMIME-Version: 1.0\r\nContent-Type: text/plain; charset=utf-8\r\n\r\ncaf\xc3\xa9 au lait\r\n'
    env.parse(original)
    env.receiver = 'q.example'
    env.timestamp = 1.0
    env.client = {}
    store = DictStorage()
    bounces = Bounces()
    table = case['backoff']

    def backoff(envelope, attempts):
        return table[attempts - 1] if attempts - 1 < len(table) else None
    queue = Queue(store, relay, backoff=backoff, bounce_queue=bounces)
    queue.start()
    out = []
    desc = repr(case)
    try:
        res = queue.enqueue(env)
        t0 = time.time()
        stable = 0
        while time.time() - t0 < 20:
            gevent.sleep(0.005)
            gevent.idle()
            if not store.env_db:
                stable += 1
                if stable > 3:
                    break
                continue
            stable = 0
            due = qm.CLOCK.next_due()
            if due is not None:
                qm.CLOCK.advance_to(due)
        else:
            out.append(('C01:relay-kind-never-settles:%s' % kind, '%s: message still in storage after 20 s' % desc))
            return out
        gevent.sleep(0.01)
        # downstream ground truth
        if kind in ('smtp', 'lmtp'):
            for p in peers:
                for (m, s_, acc, data) in p.accepted_msgs:
                    for r in acc:
                        accepted[r] = accepted.get(r, 0) + 1
        elif kind in ('pipe', 'pipe-one'):
            for r in rcpts:
                f = os.path.join(tmp, 'accepted.' + r)
                if os.path.exists(f):
                    accepted[r] = len(open(f).read().split())
        bounced = {}
        for b in bounces.items:
            flat = b''.join(b.flatten())
            head = flat.split(b'Content-Type: message/', 1)[0]
            if case.get('no8bit') and original.split(b'\r\n\r\n', 1)[1] not in flat:
                out.append(('C13:relay-kind-bounce-embeds-converted-message:%s' % kind,
                            '%s: the bounce does not embed the original 8-bit body (the relay converted the envelope in place)' % desc))
            if kind in ('smtp', 'lmtp'):
                # C13: a bounce quotes the reply its recipients failed with (the scripted peer words every reply after its stage)
                quoted = set(int(x) for x in re.findall(br'stage RCPT(\d)', head))
                named = set(i for i, r in enumerate(rcpts) if r.encode() in head)
                if quoted and not named <= quoted and len(quoted) == 1:
                    out.append(('C13:relay-kind-bounce-quotes-another-reply:%s' % kind,
                                '%s: one bounce names recipients %r but quotes only the reply given to recipient %r'
                                % (desc, sorted(named), sorted(quoted))))
            if b.sender != '' or list(b.recipients) != [sender]:
                out.append(('C01:relay-kind-bounce-addressing:%s' % kind, '%s: %r -> %r' % (desc, b.sender, b.recipients)))
            for r in rcpts:
                if r.encode() in head:
                    bounced[r] = bounced.get(r, 0) + 1
        for r in rcpts:
            a, bz = accepted.get(r, 0), bounced.get(r, 0)
            if a == 0 and bz == 0 and sender:
                out.append(('C01:relay-kind-recipient-silently-dropped:%s' % kind,
                            '%s: %s was neither accepted downstream nor bounced, and the message left storage' % (desc, r)))
                break
            if a == 0 and not sender and bz:
                out.append(('C01:relay-kind-bounce-to-null-sender:%s' % kind, desc))
                break
            if a >= 1 and bz >= 1:
                out.append(('C01:relay-kind-delivered-and-bounced:%s' % kind, '%s: %s accepted %d times and bounced %d times'
                            % (desc, r, a, bz)))
                break
            if a > 1:
                out.append(('C03:relay-kind-delivered-twice:%s' % kind, '%s: %s accepted %d times' % (desc, r, a)))
                break
    finally:
        queue.kill()
        for g in qm.GSHIM.spawned:
            if not g.dead:
                g.kill(block=False)
        kill_relay(relay)
        for s in servers:
            s.stop()
        if tmp:
            if kind in ('pipe', 'pipe-one') and any(v == 'hang' for b in rounds for v in b.values()):
                os.system('pkill -f "%s" >/dev/null 2>&1' % tmp)
            shutil.rmtree(tmp, ignore_errors=True)
    return out


_beh = st.fixed_dictionaries({}, optional={
    'all': st.sampled_from(['ok', 'rcpt4', 'rcpt5']),
    'r0': st.sampled_from(['ok', 'rcpt4', 'rcpt5', 'eod4', 'eod5', 'hang']),
    'r1': st.sampled_from(['ok', 'rcpt4', 'rcpt5', 'eod4', 'hang']),
    'r2': st.sampled_from(['ok', 'rcpt4', 'rcpt5']),
    'whole': st.sampled_from(['mail5', 'data4', 'eod4', 'eod5', 'drop', 'banner4']),
})
case_strategy = st.fixed_dictionaries({
    'family': st.just('relay-kinds'),
    'kind': st.sampled_from(['smtp', 'smtp', 'lmtp', 'lmtp', 'pipe', 'pipe-one', 'http']),
    'nrcpt': st.integers(1, 3),
    'sender': st.sampled_from([True, True, True, False]),
    'backoff': st.sampled_from([[], [0], [0, 0], [5, 5, 5], [0, 5]]),
    'rounds': st.lists(_beh, max_size=4),
})
