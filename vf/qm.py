"""The queue machine: real slimta.queue.Queue + real storage backend + scripted relay,
with every blocking point gated by the harness and the scheduler on virtual time.

Shared engine of C01, C03, C12 and C13.  A history is a JSON list of actions that
is interpreted robustly (selectors are taken modulo the number of enabled choices),
so any sub-list of a history is again a history: that is what makes replay and
delta debugging independent of the generator.
"""
import os
import re
import sys
import shutil
import tempfile
import collections

import gevent
import gevent.event
from gevent.event import AsyncResult

import slimta.queue as squeue
from slimta.queue import Queue, QueueStorage, QueueError
from slimta.queue.dict import DictStorage
from slimta.envelope import Envelope
from slimta.relay import Relay, TransientRelayError, PermanentRelayError
from slimta.smtp.reply import Reply
from slimta.bounce import Bounce


# -- virtual time ------------------------------------------------------------------

class VClock(object):
    def __init__(self):
        self.now = 1000.0
        self.mono_base = 990.0
        self.timers = []
        self.seq = 0

    def time(self):
        return self.now

    def add_timer(self, due, event):
        self.seq += 1
        t = [due, self.seq, event]
        self.timers.append(t)
        return t

    def cancel(self, t):
        try:
            self.timers.remove(t)
        except ValueError:
            pass

    def next_due(self):
        return min(t[0] for t in self.timers) if self.timers else None

    def advance_to(self, when):
        if when > self.now:
            self.now = when
        for t in sorted(self.timers):
            if t[0] <= self.now:
                self.cancel(t)
                t[2]._vfire()


CLOCK = VClock()


class _TimeShim(object):
    """Stands in for the `time` module inside slimta.queue. The wall clock and the monotonic clock have different epochs, and
    the monotonic one starts afresh when the process is restarted (as after a reboot): durations may be measured with
    either, timestamps that go into the store only with the wall clock."""

    def time(self):
        return CLOCK.now

    def monotonic(self):
        return CLOCK.now - CLOCK.mono_base

    perf_counter = monotonic

    def __getattr__(self, name):
        import time as _real
        return getattr(_real, name)


CURRENT_ENGINE = [None]


class VEvent(gevent.event.Event):
    """gevent Event whose wait(timeout) parks on a virtual timer. With cfg['sched_gate'] the waiter (the scheduler loop of the
    Queue) additionally parks on a harness gate once it has been woken: the history decides when it gets to look at the schedule
    (a scheduler that is woken but has not run yet - busy hub, blocked in a full pool - is an ordinary situation)."""

    def wait(self, timeout=None):
        ret = self._wait(timeout)
        eng = CURRENT_ENGINE[0]
        if eng is not None and eng.cfg.get('sched_gate'):
            eng.park('sched', '-')
        return ret

    def _wait(self, timeout):
        if timeout is None:
            return gevent.event.Event.wait(self)
        if self.is_set():
            return True
        t = CLOCK.add_timer(CLOCK.now + timeout, self)
        try:
            return gevent.event.Event.wait(self)
        finally:
            CLOCK.cancel(t)

    def _vfire(self):
        # wake the waiters without leaving the flag set (a timeout)
        gevent.event.Event.set(self)
        gevent.event.Event.clear(self)


class _GeventShim(object):
    """Stands in for the `gevent` module global of slimta.queue: records spawned greenlets."""

    def __init__(self):
        self.spawned = []

    def spawn(self, func, *args, **kwargs):
        g = gevent.spawn(func, *args, **kwargs)
        self.spawned.append(g)
        return g

    def __getattr__(self, name):
        return getattr(gevent, name)


GSHIM = _GeventShim()
squeue.time = _TimeShim()
squeue.Event = VEvent
squeue.gevent = GSHIM


# -- gates ------------------------------------------------------------------------

class Gate(object):
    def __init__(self, kind, tag, n, info=None):
        self.kind = kind
        self.tag = tag
        self.n = n
        self.info = info
        self.ar = AsyncResult()

    def label(self):
        return '%s:%s:%d' % (self.kind, self.tag, self.n)


class Abort(Exception):
    pass


class Fault(object):
    """Released into a storage gate: the storage operation fails (once) with an I/O error instead of being carried out."""


FAULTABLE = ('set_recipients_delivered', 'increment_attempts', 'set_timestamp')


# neighbours differ in exactly one component: enhanced status code only, reply code only, text only
# (reply text is UTF-8 on the wire: the last entry of each table is not ASCII)
# the fifth entry of each table is a reply *without* an enhanced status code (as the banner and EHLO replies of the SMTP client
# are: `enhanced_status_code = False`), which must be quoted as it is
FAIL_REPLIES_PERM = [('550', '5.1.1 rejected'), ('550', '5.7.1 rejected'), ('554', '5.7.1 rejected'), ('550', '5.1.1 Empf\u00e4nger unbekannt'),
                     ('554', 'Transaction failed')]
FAIL_REPLIES_TEMP = [('450', '4.2.0 try later'), ('450', '4.2.1 try later'), ('451', '4.2.1 try later'), ('450', '4.2.0 sp\u00e4ter'),
                     ('421', 'Service not available')]
NREP = 5


def _built(code, text, pos):
    """The same reply built in two ways: a Reply renders the class of its enhanced status code from the reply code, so
    Reply('550', '2.1.1 x') and Reply('550', '5.1.1 x') are one and the same reply (equal, same bytes)."""
    if not re.match(r'^\d\.\d+\.\d+ ', text):
        r = Reply(code)
        r.enhanced_status_code = False
        r.message = text
        return r
    if pos % 2:
        text = '2' + text[1:]
    return Reply(code, text)

# slot holders (entry function > blocking call inside slimta.queue) of the bounded-pool deadlock recorded as a known finding
KNOWN_JAM_HOLDERS = {'_dequeue>_pool_spawn', '_retry_later>_pool_spawn', '_wait_store'}


class ScriptRelay(Relay):
    def __init__(self, eng):
        super(ScriptRelay, self).__init__()
        self.eng = eng

    def attempt(self, envelope, attempts):
        return self.eng.relay_attempt(envelope, attempts)


class SchedStore(QueueStorage):
    """Wraps the real backend; every operation first parks on a gate."""

    def __init__(self, eng, inner, announce):
        super(SchedStore, self).__init__()
        self.eng = eng
        self.inner = inner
        self.announce = announce

    def write(self, envelope, timestamp):
        tag = self.eng.tag_of(envelope)
        self.eng.park('write', tag)
        with self.eng.flight():
            id = self.inner.write(envelope, timestamp)
        self.eng.on_write(tag, id, timestamp)
        if self.eng.cfg.get('late'):
            self.eng.park('write_done', tag)        # the message is in the store, the caller has not been told yet
        if self.eng.cfg.get('announce_on_write'):
            # a store that publishes every write just before write() returns: the announcement and the caller's own
            # hand-over of the id reach the queue in the same scheduling round
            self.eng.announce_now(tag, id, timestamp)
        return id

    def set_timestamp(self, id, timestamp):
        tag = self.eng.id2tag.get(_s(id), '?')
        self.eng.park('set_timestamp', tag)
        with self.eng.flight():
            self.inner.set_timestamp(id, timestamp)
        self.eng.on_timestamp(tag, timestamp)

    def increment_attempts(self, id):
        tag = self.eng.id2tag.get(_s(id), '?')
        self.eng.park('increment_attempts', tag)
        with self.eng.flight():
            return self.inner.increment_attempts(id)

    def set_recipients_delivered(self, id, rcpt_indexes):
        tag = self.eng.id2tag.get(_s(id), '?')
        self.eng.park('set_recipients_delivered', tag)
        with self.eng.flight():
            self.inner.set_recipients_delivered(id, rcpt_indexes)

    def load(self):
        self.eng.park('load', '-')
        with self.eng.flight():
            entries = list(self.inner.load())
        for _, id in entries:
            m = self.eng.msgs.get(self.eng.id2tag.get(_s(id)))
            if m is not None:
                m.known = True
        return entries

    def get(self, id):
        tag = self.eng.id2tag.get(_s(id), '?')
        self.eng.park('get', tag)
        with self.eng.flight():
            env, attempts = self.inner.get(id)
        self.eng.remember(env, tag)
        if self.eng.cfg.get('late'):
            self.eng.park('get_done', tag)          # the read has happened, its answer is still on the way (it may be stale by then)
        return env, attempts

    def remove(self, id):
        tag = self.eng.id2tag.get(_s(id), '?')
        self.eng.park('remove', tag)
        with self.eng.flight():
            self.inner.remove(id)
        self.eng.on_remove(tag)

    def wait(self):
        if not self.announce:
            raise NotImplementedError()
        entries = self.eng.park('wait', '-')
        return entries or []


def _s(id):
    return id.decode('ascii') if isinstance(id, bytes) else id


class _Flight(object):
    def __init__(self, eng):
        self.eng = eng

    def __enter__(self):
        self.eng.in_flight += 1

    def __exit__(self, *a):
        self.eng.in_flight -= 1


class Msg(object):
    def __init__(self, tag, sender, rcpts, is_bounce=False):
        self.tag = tag
        self.sender = sender
        self.rcpts = list(rcpts)
        self.state = dict((r, 'out') for r in rcpts)
        self.attempts = 0
        self.id = None
        self.acked = False
        self.removed = False
        self.due = None
        self.flushed = False
        self.may_flush = False
        self.is_bounce = is_bounce
        self.known = False          # the running queue has been told about it (enqueue / load / announce)
        self.open_attempts = 0
        self.nattempts = 0
        self.content = None

    def outstanding(self):
        return [r for r in self.rcpts if self.state[r] == 'out']

    def done(self):
        return not self.outstanding()


class BounceQueue(object):
    """Separate recording bounce queue."""

    def __init__(self, eng):
        self.eng = eng

    def enqueue(self, envelope):
        self.eng.on_bounce_enqueued(envelope)
        return [(envelope, 'bounce-id')]


class BounceQueueQ(Queue):
    """A real (relay-less) Queue object used as the separate bounce queue; as in normal set-up code it is constructed, handed to the
    main queue and only started afterwards."""

    def __init__(self, eng):
        from slimta.queue.dict import DictStorage
        super(BounceQueueQ, self).__init__(DictStorage())
        self.eng = eng

    def enqueue(self, envelope):
        self.eng.on_bounce_enqueued(envelope)
        return [(envelope, 'bounce-id')]


class Engine(object):
    def __init__(self, cfg):
        self.cfg = cfg
        CURRENT_ENGINE[0] = self
        CLOCK.now = 1000.0
        CLOCK.mono_base = 990.0
        CLOCK.timers = []
        GSHIM.spawned = []
        self.pending = []
        self.reply_cache = {}
        self.counters = collections.Counter()
        self.in_flight = 0
        self.failures = []
        self.msgs = {}
        self.id2tag = {}
        self.bounce_objs = {}          # id(envelope object) -> tag
        self.keepalive = []
        self.expected_bounces = []     # (orig tag, frozenset(rcpts), code, message)
        self.seen_bounces = []
        self.relay_log = []
        self.flush_threads = []
        self.enqueue_threads = []
        self.labels = set()
        self.total_written = 0
        self.tmpdir = None
        self.nmsg = 0
        self.dead = False
        self.exhausted_choice = False
        self.jam_seen = None
        self.faulted = False
        self.inner = self._make_store()
        self._build_queue()

    # -- construction ---------------------------------------------------------
    def _make_store(self):
        b = self.cfg.get('backend', 'dict')
        if b == 'dict':
            self.substrate = getattr(self, 'substrate', None) or ({}, {})
            return DictStorage(*self.substrate)
        if b == 'disk':
            from slimta.diskstorage import DiskStorage, AioFile
            AioFile.chunk_size = 64
            if not self.tmpdir:
                self.tmpdir = tempfile.mkdtemp(prefix='vfqm_')
                for d in ('env', 'meta', 'tmp'):
                    os.mkdir(os.path.join(self.tmpdir, d))
            return DiskStorage(os.path.join(self.tmpdir, 'env'), os.path.join(self.tmpdir, 'meta'),
                               os.path.join(self.tmpdir, 'tmp'))
        from vf import backends
        return backends.make(b, self)

    def _build_queue(self):
        cfg = self.cfg
        table = cfg.get('backoff', [])

        def backoff(envelope, attempts):
            return self.backoff_value(attempts)

        self.store = SchedStore(self, self.inner, cfg.get('announce', False))
        self.relay = ScriptRelay(self)
        bq = {'separate': BounceQueue, 'separate-queue': BounceQueueQ}.get(cfg.get('bounce_queue'), lambda e: None)(self)
        self.queue = Queue(self.store, self.relay, backoff=backoff, bounce_factory=self.bounce_factory,
                           bounce_queue=bq, store_pool=cfg.get('store_pool'), relay_pool=cfg.get('relay_pool'))
        self.queue.start()
        if isinstance(bq, BounceQueueQ):
            bq.start()
        self.settle()

    def backoff_value(self, attempts):
        table = self.cfg.get('backoff', [])
        if not table:
            return None
        if attempts - 1 < len(table):
            return table[attempts - 1]
        return table[-1] if self.cfg.get('backoff_forever') else None

    def bounce_factory(self, envelope, reply):
        mode = self.cfg.get('bounce_factory', 'default')
        otag = self.tag_of(envelope)
        rec = {'of': otag, 'rcpts': list(envelope.recipients), 'code': reply.code, 'message': reply.message,
               'sender': envelope.sender}
        if mode == 'none':
            rec['bounce'] = None
            self.seen_bounces.append(rec)
            return None
        b = Bounce(envelope, reply, headers_only=(mode == 'headersonly'))
        self.nmsg += 1
        tag = 'b%d' % self.nmsg
        self.bounce_objs[id(b)] = tag
        rec['bounce'] = b
        self.keepalive.append(b)
        rec['tag'] = tag
        rec['enqueued'] = 0
        self.seen_bounces.append(rec)
        m = Msg(tag, '', list(b.recipients), is_bounce=True)
        self.msgs[tag] = m
        return b

    # -- plumbing ---------------------------------------------------------------
    def fail(self, owner, clause, msg):
        if self.faulted and owner != 'C03':
            return          # after an injected storage failure only C03's clauses are judged (the others assume a working store)
        self.note_pool_jam()
        if self.jam_seen:
            return          # reported once, as the bounded-pool deadlock itself
        self.failures.append((owner, '%s:%s' % (owner, clause), msg))

    def note_pool_jam(self):
        """A bounded pool is full while no gate is pending that could ever free a slot of it."""
        if self.jam_seen:
            return
        sp = getattr(self.queue, 'store_pool', None)
        rp = getattr(self.queue, 'relay_pool', None)
        if self.in_flight or [g for g in self.pending if g.kind != 'wait']:
            return
        def full(pool):
            # a finished greenlet keeps its slot until the hub has run its completion callback: that is not a jam
            return pool is not None and pool.free_count() == 0 and all(not g.dead for g in pool.greenlets)
        which = None
        if full(sp):
            which = 'store_pool (size %d)' % sp.size
        elif full(rp):
            which = 'relay_pool (size %d)' % rp.size
        if which:
            shape = self._jam_shape(sp if which.startswith('store') else rp)
            if '?' in shape.split('+'):
                return      # a slot holder that is not inside slimta.queue (not started yet / just finishing): not a nested-spawn deadlock
            self.jam_seen = which
            self.jam_shape = shape
            # the recorded finding covers the slot holders observed on the unchanged tree; any other holder is a new deadlock
            extra = sorted(c for c in self.jam_shape.split('+') if c not in KNOWN_JAM_HOLDERS)
            suffix = (':' + '+'.join(extra)) if extra else ''
            msg = ('%s is full although no storage or relay operation is running: greenlets holding its slots wait for '
                   'further slots (nested spawn into a bounded pool); nothing can make progress any more [slot holders: %s]'
                   % (which, self.jam_shape))
            self.failures.append(('C01', 'C01:bounded-pool-deadlock' + suffix, msg))
            self.failures.append(('C12', 'C12:bounded-pool-deadlock' + suffix, msg))
            if any('_bounce' in c for c in extra):
                self.failures.append(('C13', 'C13:bounce-never-enqueued:bounded-pool-deadlock' + suffix, msg))
            self.dead = True

    def _jam_shape(self, pool):
        """Which queue functions hold the slots of the full pool, and where they block (call sites inside slimta.queue)."""
        shapes = set()
        for gr in list(pool.greenlets):
            f = getattr(gr, 'gr_frame', None)
            names = []
            while f is not None:
                if f.f_code.co_filename.endswith('slimta/queue/__init__.py'):
                    names.append(f.f_code.co_name)
                f = f.f_back
            if names:
                shapes.add('%s>%s' % (names[-1], names[0]) if len(names) > 1 else names[0])
            else:
                shapes.add('?')
        return '+'.join(sorted(shapes))

    def flight(self):
        return _Flight(self)

    def remember(self, envelope, tag):
        self.keepalive.append(envelope)
        self.bounce_objs[id(envelope)] = tag

    def tag_of(self, envelope):
        t = self.bounce_objs.get(id(envelope))
        if t:
            return t
        try:
            v = envelope.headers['X-Tag']
            if v:
                return str(v)
        except Exception:
            pass
        # a bounce loaded back from storage: look for the tag of the original inside
        return '?'

    def park(self, kind, tag, info=None):
        self.counters[(kind, tag)] += 1
        g = Gate(kind, tag, self.counters[(kind, tag)], info)
        self.pending.append(g)
        out = g.ar.get()
        if isinstance(out, Abort):
            raise gevent.GreenletExit()
        if isinstance(out, Fault):
            raise IOError(28, 'injected storage failure in %s' % kind)
        return out

    def settle(self):
        """Run until every greenlet is parked on a gate or a virtual timer."""
        import time as _time
        t0 = _time.time()
        while True:
            gevent.idle()
            if self.in_flight == 0:
                gevent.idle()
                if self.in_flight == 0:
                    return
            if _time.time() - t0 > 20.0:
                raise RuntimeError('quiescence watchdog')     # harness error (exit 2), never a violation
            gevent.sleep(0.001)

    # -- observation hooks --------------------------------------------------------
    def on_write(self, tag, id, timestamp):
        id = _s(id)
        self.total_written += 1
        m = self.msgs.get(tag)
        if m is None:
            return
        self.id2tag[id] = tag
        m.id = id
        m.acked = True
        m.known = True
        m.due = timestamp
        if m.is_bounce:
            if str(self.cfg.get('bounce_queue')).startswith('separate'):
                self.fail('C13', 'bounce-not-handed-to-configured-queue',
                          'a bounce queue was configured, but the bounce for %s was enqueued into the main queue itself' % tag)
            self.on_bounce_enqueued(None, tag)

    def on_timestamp(self, tag, timestamp):
        m = self.msgs.get(tag)
        if m is not None:
            m.due = timestamp
            m.flushed = False
            # a flush() still in progress takes its snapshot of the waiting messages when it gets the scheduler lock, which may
            # be after this message is re-queued: an early attempt is then permitted (but not required)
            m.may_flush = any(not t.dead for t in self.flush_threads)

    def on_remove(self, tag):
        m = self.msgs.get(tag)
        if m is None:
            return
        m.removed = True
        if m.outstanding():
            self.fail('C01', 'removed-with-outstanding-recipients',
                      'message %s removed from storage while %r were neither delivered nor failed for good'
                      % (tag, m.outstanding()))

    def on_bounce_enqueued(self, envelope, tag=None):
        tag = tag or self.bounce_objs.get(id(envelope))
        for rec in self.seen_bounces:
            if rec.get('tag') == tag:
                rec['enqueued'] += 1
                if str(self.cfg.get('bounce_queue')).startswith('separate'):
                    m = self.msgs.get(tag)
                    if m:
                        for r in m.rcpts:
                            m.state[r] = 'ok'     # custody of the separate queue
                return
        self.fail('C13', 'unknown-bounce-enqueued', 'an envelope not produced by the bounce factory was enqueued as a bounce')

    # -- the relay ------------------------------------------------------------------
    def relay_attempt(self, envelope, attempts):
        tag = self.tag_of(envelope)
        m = self.msgs.get(tag)
        rcpts = list(envelope.recipients)
        rec = {'tag': tag, 'rcpts': rcpts, 'attempts': attempts, 'now': CLOCK.now}
        self.relay_log.append(rec)
        if m is not None:
            m.nattempts += 1
            settled = [r for r in rcpts if m.state.get(r) in ('ok', 'fail')]
            if settled:
                self.fail('C03', 'settled-recipient-attempted-again',
                          'attempt #%d of %s includes %r already %s (attempt recipients %r)'
                          % (m.nattempts, tag, settled, [m.state[r] for r in settled], rcpts))
            missing = [r for r in m.outstanding() if r not in rcpts]
            if missing:
                self.fail('C01', 'outstanding-recipient-not-attempted',
                          'attempt #%d of %s lacks outstanding %r (attempt recipients %r)'
                          % (m.nattempts, tag, missing, rcpts))
            if m.open_attempts:
                self.fail('C03', 'two-attempts-in-flight', 'message %s has %d attempts in progress' % (tag, m.open_attempts + 1))
            if m.due is not None and CLOCK.now < m.due and not m.flushed and not m.may_flush:
                self.fail('C12', 'attempted-early', 'message %s attempted at %.3f, due %.3f' % (tag, CLOCK.now, m.due))
            if attempts != m.attempts:
                self.fail('C01', 'attempt-count', 'message %s attempt called with attempts=%r, model has %r'
                          % (tag, attempts, m.attempts))
            m.open_attempts += 1
        try:
            spec = self.park('relay', tag, rec)
        finally:
            if m is not None:
                m.open_attempts -= 1
        return self.apply_outcome(m, envelope, rcpts, spec or {})

    def _reply(self, code, text, pos=0):
        """With cfg['shared_replies'] the relay hands out the same Reply object whenever it reports the same reply (a relay that
        keeps its error replies as constants): what the queue does to the reply of one message must not show in another's."""
        if not self.cfg.get('shared_replies'):
            return _built(code, text, pos)
        key = (code, text, pos % 2)
        if key not in self.reply_cache:
            self.reply_cache[key] = _built(code, text, pos)
        return self.reply_cache[key]

    def apply_outcome(self, m, envelope, rcpts, spec):
        shape = spec.get('shape', 'none')
        per = spec.get('per') or ['ok']
        rsel = spec.get('replies') or [0]
        results = []
        for i, r in enumerate(rcpts):
            kind = per[i % len(per)]
            k = rsel[i % len(rsel)]
            if shape in ('none', 'reply'):
                kind = 'ok'
            elif shape in ('raise_t', 'raise_x'):
                kind, k = 'temp', rsel[0]
            elif shape == 'raise_p':
                kind, k = 'perm', rsel[0]
            results.append((r, kind, k))
        # the same address may occur twice in a message (two RCPT commands): a per-recipient result is keyed by address, so every
        # occurrence gets the verdict of the first one
        first = {}
        results = [(r,) + first.setdefault(r, (kind, k)) for r, kind, k in results]
        # model
        if m is not None:
            groups = collections.OrderedDict()
            temps = []
            pre = set(r for r in rcpts if m.state.get(r) == 'out')
            seen = set()
            for r, kind, k in results:
                if r not in pre:
                    continue
                if shape in ('map', 'seq'):
                    if r in seen:
                        continue        # one verdict, one bounce entry per address
                    seen.add(r)
                if kind == 'ok':
                    m.state[r] = 'ok'
                elif kind == 'perm':
                    m.state[r] = 'fail'
                    groups.setdefault(FAIL_REPLIES_PERM[k % NREP], []).append(r)
                else:
                    rep = FAIL_REPLIES_TEMP[k % NREP]
                    if shape == 'raise_x':
                        rep = ('450', '4.0.0 Unhandled delivery error: boom')
                    temps.append((r, rep))
            for rep, rs in groups.items():
                self.expect_bounce(m, rs, rep)
            if temps:
                m.attempts += 1
                wait = self.backoff_value(m.attempts)
                if wait is None:
                    tg = collections.OrderedDict()
                    for r, rep in temps:
                        m.state[r] = 'fail'
                        tg.setdefault((rep[0], rep[1] + ' (Too many retries)'), []).append(r)
                    for rep, rs in tg.items():
                        self.expect_bounce(m, rs, rep)
                    self.labels.add('exhausted')
            if len(set(k for _, k, _ in results)) > 1:
                self.labels.add('mixed-outcome')
        # the value handed to the Queue
        if shape == 'none':
            return None
        if shape == 'reply':
            return Reply('250', '2.0.0 accepted')
        if shape == 'raise_t':
            c, t = FAIL_REPLIES_TEMP[rsel[0] % NREP]
            raise TransientRelayError('transient', self._reply(c, t))
        if shape == 'raise_p':
            c, t = FAIL_REPLIES_PERM[rsel[0] % NREP]
            raise PermanentRelayError('permanent', self._reply(c, t))
        if shape == 'raise_x':
            raise RuntimeError('boom')
        vals = []
        for pos, (r, kind, k) in enumerate(results):
            if kind == 'ok':
                vals.append(None if k % 2 else Reply('250', '2.0.0 ok'))
            elif kind == 'perm':
                c, t = FAIL_REPLIES_PERM[k % NREP]
                vals.append(PermanentRelayError('perm', self._reply(c, t, pos)))
            else:
                c, t = FAIL_REPLIES_TEMP[k % NREP]
                vals.append(TransientRelayError('temp', self._reply(c, t, pos)))
        if shape == 'seq':
            return vals
        if spec.get('rev'):
            # a relay that fills in its result mapping in another order than the envelope lists the recipients
            # (per destination, as results come in): the mapping is keyed by address, its order means nothing
            pairs = list(zip(rcpts, vals))
            first = {}
            for r_, v_ in pairs:
                first.setdefault(r_, v_)
            return dict((r_, dict(pairs)[r_]) for r_ in reversed(list(first)))
        return dict(zip(rcpts, vals))

    def expect_bounce(self, m, rcpts, rep):
        if m.sender and not m.is_bounce:
            self.expected_bounces.append((m.tag, tuple(rcpts), rep[0], rep[1]))
        if len(self.expected_bounces) and m.sender:
            self.labels.add('bounce')

    # -- actions ------------------------------------------------------------------------
    def act(self, action):
        if self.dead or self.failures:
            return
        kind = action[0]
        if kind == 'enqueue':
            self.do_enqueue(action[1])
        elif kind == 'release':
            self.do_release(int(action[1]), action[2] if len(action) > 2 else None)
        elif kind == 'tick':
            due = CLOCK.next_due()
            if due is not None:
                CLOCK.advance_to(due)
                self.labels.add('tick')
        elif kind == 'advance':
            CLOCK.advance_to(CLOCK.now + max(0, int(action[1])) / 8.0)
        elif kind == 'flush':
            self.do_flush()
        elif kind == 'announce':
            self.do_announce(int(action[1]))
        elif kind == 'restart':
            self.do_restart()
        elif kind == 'serve':
            self.do_serve(action[1] if len(action) > 1 else None)
        elif kind == 'pick':
            # schedule enumeration: release exactly the k-th pending gate; relay gates fail transiently on the message's
            # first attempt and succeed afterwards (so every schedule contains one retry round)
            live = [g for g in self.pending if g.kind != 'wait']
            k = int(action[1])
            if k < len(live):
                g = live[k]
                spec = None
                if g.kind == 'relay':
                    m = self.msgs.get(g.tag)
                    first = m is not None and m.nattempts <= 1
                    spec = {'shape': 'map', 'per': ['temp', 'ok'], 'replies': [0]} if first else {'shape': 'none'}
                self.release(g, spec)
            else:
                self.exhausted_choice = True
        elif kind == 'release_kind':
            # directed histories: release the n-th pending gate of one kind (get, relay, set_timestamp, load, ...)
            cands = [g for g in self.pending if g.kind == action[1]]
            if cands:
                self.release(cands[int(action[2]) % len(cands)], action[3] if len(action) > 3 else None)
        elif kind == 'fault':
            # one of the storage operations that record the outcome of an attempt fails with an I/O error
            cands = [g for g in self.pending if g.kind in FAULTABLE]
            if cands:
                g = cands[int(action[1]) % len(cands)]
                self.pending.remove(g)
                self.faulted = True
                self.labels.add('storage-fault')
                g.ar.set(Fault())
        elif kind == 'answer':
            self.do_serve(action[1] if len(action) > 1 else None, follow=False)
        elif kind == 'storage':
            for g in [g for g in self.pending if g.kind not in ('wait', 'relay')]:
                if g in self.pending:
                    self.release(g)
        self.settle()
        self.check_quiescent()

    def do_enqueue(self, spec):
        if len([m for m in self.msgs.values() if not m.is_bounce]) >= 4:
            return
        self.nmsg += 1
        tag = 'm%d' % self.nmsg
        n = max(1, min(8 if spec.get('many') else 4, int(spec.get('n', 1))))
        rcpts = ['r%d@%s.example' % (i, tag) for i in range(n)]
        if spec.get('dup') and n >= 2:
            # the same address given in two RCPT commands: first and last, or (dup == 2) the first two, ahead of the others
            if spec['dup'] == 2 and n >= 3:
                rcpts[1] = rcpts[0]
            else:
                rcpts[-1] = rcpts[0]
            self.labels.add('repeated-recipient')
        if spec.get('utf8'):
            # an internationalised mailbox (SMTPUTF8): what is said about it to the sender must survive the bounce template
            rcpts[0] = 'jos\u00e9.r0@%s.example' % tag
            if rcpts[-1].startswith('r0@'):
                rcpts[-1] = rcpts[0]
            if len(rcpts) > 1 and rcpts[1].startswith('r0@'):
                rcpts[1] = rcpts[0]
        sender = 's@%s.example' % tag if spec.get('sender', True) else ''
        env = Envelope(sender, list(rcpts))
        body = bytes.fromhex(spec['body']) if spec.get('body') else b'body of %s\r\n' % tag.encode()
        extra = bytes.fromhex(spec['block']) if spec.get('block') else b'Subject: t\r\n'
        env.parse(b'From: ' + (sender or '<>').encode() + b'\r\nX-Tag: ' + tag.encode() + b'\r\n' + extra + b'\r\n' + body)
        env.receiver = 'verif'
        env.timestamp = CLOCK.now
        env.client = {'name': 'c', 'ip': '1.2.3.4'}
        m = Msg(tag, sender, rcpts)
        m.content = env.flatten()
        self.msgs[tag] = m
        g = gevent.spawn(self.queue.enqueue, env)
        self.enqueue_threads.append((tag, g))

    def do_release(self, sel, spec):
        if not self.pending:
            return
        g = self.pending[sel % len(self.pending)]
        self.release(g, spec)

    def release(self, g, spec=None):
        self.pending.remove(g)
        if g.kind == 'relay':
            g.ar.set(spec or {})
        elif g.kind == 'wait':
            g.ar.set(spec if isinstance(spec, list) else [])
        else:
            g.ar.set(None)

    def do_serve(self, spec, follow=True):
        """Serial schedule: let storage operations and timers run until a relay attempt is open, then answer it."""
        for _ in range(60):
            self.settle()
            relays = [g for g in self.pending if g.kind == 'relay']
            if relays:
                self.release(relays[0], spec)
                if not follow:
                    return
                # ... and let the storage operations that follow the answer complete
                for _ in range(30):
                    self.settle()
                    others = [g for g in self.pending if g.kind not in ('wait', 'relay')]
                    if not others or self.failures:
                        return
                    self.release(others[0])
                return
            others = [g for g in self.pending if g.kind != 'wait']
            if others:
                self.release(others[0])
                continue
            due = CLOCK.next_due()
            if due is None:
                return
            CLOCK.advance_to(due)

    def do_flush(self):
        busy = set(g.tag for g in self.pending)
        waiting = [m for m in self.msgs.values() if m.acked and m.known and not m.removed and m.due is not None
                   and not m.open_attempts and m.tag not in busy]     # in-flight messages are not waiting: flush does not concern them
        for m in waiting:
            m.flushed = True
        t = gevent.spawn(self.queue.flush)
        self.flush_threads.append(t)
        self.labels.add('flush')

    def do_announce(self, sel):
        waits = [g for g in self.pending if g.kind == 'wait']
        live = [m for m in self.msgs.values() if m.acked and not m.removed]
        if not waits or not live:
            return
        m = live[sel % len(live)]
        m.known = True
        self.pending.remove(waits[0])
        waits[0].ar.set([(m.due if m.due is not None else CLOCK.now, m.id)])
        self.labels.add('announce')

    def announce_now(self, tag, id, timestamp):
        waits = [g for g in self.pending if g.kind == 'wait']
        m = self.msgs.get(tag)
        if not waits or m is None:
            return
        m.known = True
        self.pending.remove(waits[0])
        waits[0].ar.set([(timestamp, id)])
        self.labels.add('announce')

    def do_restart(self):
        if [g for g in self.pending if g.kind != 'wait'] or self.in_flight or self.faulted:
            return
        if any(not t.dead for t in self.flush_threads) or any(not g.dead for _, g in self.enqueue_threads):
            return
        self.queue.kill()
        for g in list(self.pending):
            self.pending.remove(g)
            g.ar.set(Abort())
        for g in GSHIM.spawned:
            if not g.dead:
                g.kill(block=False)
        gevent.idle()
        GSHIM.spawned = []
        CLOCK.timers = []
        CLOCK.mono_base = CLOCK.now - 10.0          # the new process runs after a reboot: its monotonic clock starts again
        for m in self.msgs.values():
            m.flushed = False
            m.known = False
        self.inner = self._make_store()
        self._build_queue()
        self.labels.add('restart')

    # -- invariants at quiescence ------------------------------------------------------------
    def check_quiescent(self):
        if self.failures:
            return
        self.note_pool_jam()
        for t in self.flush_threads:
            sp = getattr(self.queue, 'store_pool', None)
            if not t.dead and not any(g.kind != 'relay' and g.kind != 'wait' for g in self.pending) \
                    and (sp is None or sp.free_count() > 0):
                # nothing but relay gates can be holding store-pool slots: flush must have returned
                self.fail('C12', 'flush-does-not-return', 'flush() is still blocked at a quiescent point with no storage operation pending')
                return
        if not [g for g in self.pending if g.kind != 'wait'] and not self.in_flight \
                and all(t.dead for t in self.flush_threads) and all(g.dead for _, g in self.enqueue_threads):
            nxt = CLOCK.next_due()
            for m in self.msgs.values():
                if not m.acked or not m.known or m.removed or m.open_attempts or m.done():
                    continue
                if m.due is None:
                    continue
                if m.due <= CLOCK.now or m.flushed:
                    text = ('message %s is due (%.3f <= now %.3f%s) but nothing is in flight for it '
                            'and the queue is quiescent' % (m.tag, m.due, CLOCK.now, ', flushed' if m.flushed else ''))
                    self.fail('C12', 'due-message-idle', text)
                    self.fail('C01', 'not-retried-any-more', text)
                    return
                if nxt is None or nxt > m.due:
                    text = 'message %s waits for %.3f but the next scheduler wake-up is %r' % (m.tag, m.due, nxt)
                    self.fail('C12', 'waiting-message-not-scheduled', text)
                    self.fail('C01', 'not-retried-any-more', text)
                    return
        by_tag = collections.Counter(g.tag for g in self.pending if g.kind == 'relay')
        for tag, c in by_tag.items():
            if c > 1:
                self.fail('C03', 'two-attempts-in-flight', 'message %s has %d relay attempts open' % (tag, c))

    # -- fair drain ---------------------------------------------------------------------------
    def drain(self):
        if self.failures or self.dead:
            return
        rounds = 0
        while rounds < 400:
            rounds += 1
            live = [g for g in self.pending if g.kind != 'wait']
            if live:
                for g in list(live):
                    if g in self.pending:
                        self.release(g, {'shape': 'none'})
                self.settle()
                self.check_quiescent()
                if self.failures:
                    return
                continue
            due = CLOCK.next_due()
            if due is not None:
                CLOCK.advance_to(due)
                self.settle()
                continue
            break
        else:
            self.fail('C01', 'drain-does-not-terminate', 'still busy after 400 drain rounds')
            return
        # final dispositions
        for tag, g in self.enqueue_threads:
            if not g.dead:
                self.fail('C01', 'enqueue-never-returns', 'enqueue of %s still blocked after the drain' % tag)
                return
        for tag, g in self.enqueue_threads:
            e = g.exception
            if e is not None and not isinstance(e, (QueueError, Fault, Abort, gevent.GreenletExit)) and not self.faulted:
                # (an injected storage fault may come out of enqueue(); anything else is a crash of the call that took custody)
                self.fail('C01', 'enqueue-raises:%s' % type(e).__name__, 'enqueue of %s raised %r' % (tag, e))
                return
        self.note_pool_jam()
        if self.dead:
            return
        for t in self.flush_threads:
            if not t.dead:
                self.fail('C12', 'flush-does-not-return', 'flush() still blocked after the drain')
                return
        for m in self.msgs.values():
            if not m.acked:
                continue
            if m.outstanding():
                text = ('after the fair drain message %s (%s) still has outstanding recipients %r; attempts made: %d'
                        % (m.tag, 'still in storage' if not m.removed else 'removed', m.outstanding(), m.nattempts))
                if m.removed:
                    self.fail('C01', 'lost-recipients', text)
                else:
                    self.fail('C01', 'not-retried-any-more', text)
                    self.fail('C12', 'forgotten-message', text)
                return
        try:
            left = [(_s(i)) for _, i in self.inner.load()]
        except Exception as e:
            self.fail('C15', 'load-raises', 'load() after the drain raised %r' % (e,))
            return
        if left:
            self.fail('C01', 'storage-not-empty-after-drain', 'ids %r (tags %r) remain in storage after every message reached '
                      'a final disposition' % (left, [self.id2tag.get(i) for i in left]))
            return
        self.check_bounces()

    def check_bounces(self):
        mode = self.cfg.get('bounce_factory', 'default')
        want = collections.Counter((t, tuple(sorted(r)), c, msg) for t, r, c, msg in self.expected_bounces)
        got = collections.Counter((rec['of'], tuple(sorted(rec['rcpts'])), rec['code'], rec['message'])
                                  for rec in self.seen_bounces if rec['sender'])
        if mode != 'none':
            # C01: a recipient that failed for good is reported back to the (non-empty) sender
            covered = set((rec['of'], r) for rec in self.seen_bounces if rec.get('enqueued') for r in rec['rcpts'])
            for t, rs, c, msg in self.expected_bounces:
                missing = [r for r in rs if (t, r) not in covered]
                if missing:
                    self.fail('C01', 'failed-recipient-never-reported-to-sender',
                              'message %s: %r failed for good (%s %s) but no bounce naming them was enqueued' % (t, missing, c, msg))
                    break
        nosender = [rec for rec in self.seen_bounces if not rec['sender']]
        if nosender:
            self.fail('C13', 'bounce-for-null-sender', 'a bounce was generated for a message with an empty sender: %r'
                      % [(r['of'], r['rcpts']) for r in nosender])
            return
        if want != got:
            self.fail('C13', 'bounce-multiset', 'expected bounces %r, generated %r' % (sorted(want.elements()), sorted(got.elements())))
            return
        for rec in self.seen_bounces:
            b = rec.get('bounce')
            if b is None:
                continue
            if rec['enqueued'] != 1:
                self.fail('C13', 'bounce-not-enqueued-once', 'bounce for %s %r was enqueued %d times'
                          % (rec['of'], rec['rcpts'], rec['enqueued']))
                return
            orig = self.msgs.get(rec['of'])
            if b.sender != '' or list(b.recipients) != [orig.sender]:
                self.fail('C13', 'bounce-addressing', 'bounce for %s has sender %r recipients %r' % (rec['of'], b.sender, b.recipients))
                return
            flat = b''.join(b.flatten())
            for r in rec['rcpts']:
                # (the template is ASCII: an internationalised address may be written with character references)
                if r.encode() not in flat and r.encode('ascii', 'xmlcharrefreplace') not in flat:
                    self.fail('C13', 'bounce-content', 'bounce for %s does not name %s' % (rec['of'], r))
                    return
            others = [r for r in orig.rcpts if r not in rec['rcpts']]
            head = flat.split(b'Content-Type: message/', 1)[0].split(b'Content-Type: text/rfc822', 1)[0]
            for r in others:
                if r.encode() in head:
                    self.fail('C13', 'bounce-content', 'bounce for %s %r names %s, which did not fail with that reply'
                              % (rec['of'], rec['rcpts'], r))
                    return
            if rec['code'].encode() + b' ' + rec['message'].encode() not in flat:
                self.fail('C13', 'bounce-content', 'bounce for %s does not quote %s %s' % (rec['of'], rec['code'], rec['message']))
                return
            hdr, body = orig.content
            need = hdr if mode == 'headersonly' else hdr + body
            if need not in flat:
                self.fail('C13', 'bounce-content', 'bounce for %s does not embed the original %s unchanged'
                          % (rec['of'], 'header block' if mode == 'headersonly' else 'message'))
                return
            if mode == 'headersonly' and body.strip() and body in flat:
                self.fail('C13', 'bounce-content', 'headers-only bounce for %s embeds the body' % rec['of'])
                return
        originals = len([m for m in self.msgs.values() if not m.is_bounce and m.acked])
        bounces_written = len([m for m in self.msgs.values() if m.is_bounce and m.acked])
        if self.total_written > originals + len([r for r in self.seen_bounces if r.get('bounce') is not None]):
            self.fail('C13', 'bounce-loop', '%d messages written for %d originals and %d bounces'
                      % (self.total_written, originals, bounces_written))

    # -- teardown ------------------------------------------------------------------------------
    def close(self):
        try:
            CURRENT_ENGINE[0] = None
            self.queue.kill()
            for g in list(self.pending):
                g.ar.set(Abort())
            self.pending = []
            for g in GSHIM.spawned + self.flush_threads + [g for _, g in self.enqueue_threads]:
                if not g.dead:
                    g.kill(block=False)
            gevent.idle()
            closer = getattr(self.inner, 'verif_close', None)
            if closer:
                closer()
        finally:
            if self.tmpdir:
                shutil.rmtree(self.tmpdir, ignore_errors=True)


def run_history(cfg, actions, owners=None):
    """Interpret one history; returns (failures [(sig, msg)], labels, stats)."""
    eng = Engine(cfg)
    try:
        try:
            for a in actions:
                if isinstance(a, list) and a:
                    eng.act(a)
            pending_before_drain = len([g for g in eng.pending if g.kind != 'wait'])
            eng.drain()
        except RuntimeError as e:
            if 'quiescence watchdog' in str(e):
                raise
            raise
        fails = [(sig, msg) for owner, sig, msg in eng.failures if owners is None or owner in owners]
        labels = set(eng.labels)
        stats = {'attempts': len(eng.relay_log), 'msgs': len(eng.msgs), 'pending_now': pending_before_drain,
                 'exhausted_choice': eng.exhausted_choice,
                 'max_attempts_one_msg': max([m.nattempts for m in eng.msgs.values()] or [0])}
        return fails, labels, stats
    finally:
        eng.close()
