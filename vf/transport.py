"""In-memory transports owned by the harness (segmentation is a generated input)."""
import errno
import socket as _socket


class WouldBlockForever(Exception):
    """A recv() was issued although the script owes the reader nothing."""


class ScriptedSocket(object):
    """Socket whose recv() returns pre-cut segments and b'' at the end.

    `segments` is a list of byte strings; a recv(n) never returns more than n
    bytes (an over-long segment is handed out in pieces).  Everything sent is
    appended to `out` (list of byte strings) and `events` records the global
    order of recv/send calls.
    """

    def __init__(self, segments, eof=True, address=('127.0.0.1', 12345)):
        self.segments = [bytes(s) for s in segments if len(s)]
        self.pos = 0
        self.off = 0
        self.eof = eof
        self.recv_calls = 0
        self.recv_after_end = 0
        self.out = []
        self.events = []
        self.closed = False
        self.address = address

    # -- reading ----------------------------------------------------------
    def recv(self, n=4096, flags=0):
        self.recv_calls += 1
        if self.pos >= len(self.segments):
            self.recv_after_end += 1
            self.events.append(('recv', b''))
            if self.eof:
                return b''
            raise WouldBlockForever()
        seg = self.segments[self.pos]
        piece = seg[self.off:self.off + n]
        self.off += len(piece)
        if self.off >= len(seg):
            self.pos += 1
            self.off = 0
        self.events.append(('recv', piece))
        return piece

    def recv_into(self, buf, nbytes=0, flags=0):
        n = nbytes or len(buf)
        piece = self.recv(n)
        buf[:len(piece)] = piece
        return len(piece)

    def unread(self):
        if self.pos >= len(self.segments):
            return b''
        return self.segments[self.pos][self.off:] + b''.join(self.segments[self.pos + 1:])

    def segments_touched(self):
        """Number of segments the reader has at least started."""
        return self.pos + (1 if self.off else 0)

    # -- writing ----------------------------------------------------------
    def sendall(self, data, flags=0):
        if self.closed:
            raise _socket.error(errno.EPIPE, 'closed')
        data = bytes(data)
        self.out.append(data)
        self.events.append(('send', data))

    send = sendall

    def output(self):
        return b''.join(self.out)

    # -- misc -------------------------------------------------------------
    def getpeername(self):
        return self.address

    def getsockname(self):
        return ('127.0.0.1', 25)

    def fileno(self):
        return -1

    def close(self):
        self.closed = True

    def shutdown(self, how):
        pass

    def settimeout(self, t):
        pass

    def setsockopt(self, *a):
        pass


def cut(stream, cuts):
    """Cut a byte string at the given sorted offsets."""
    out = []
    last = 0
    for c in cuts:
        if last < c < len(stream):
            out.append(stream[last:c])
            last = c
    out.append(stream[last:])
    return [s for s in out if s]
