"""Parent side of the coverage-guided tier (thorough only): one atheris process per shard."""
import os
import sys
import json
import glob
import shutil
import tempfile
import subprocess

HERE = os.path.dirname(os.path.dirname(os.path.abspath(__file__)))


def available():
    return os.path.isdir(os.path.join(HERE, '.deps', 'atheris'))


def run(ctx, pid, seconds, seeds=()):
    """Fuzz for `seconds` in this shard; failures are reported through ctx like any other case."""
    if not available():
        ctx.extra['atheris'] = 'not installed (tier skipped)'
        return
    tmp = tempfile.mkdtemp(prefix='vffuzz_')
    try:
        corpus = os.path.join(tmp, 'corpus')
        out = os.path.join(tmp, 'out')
        os.makedirs(corpus)
        if ctx.shard % 2 == 0:           # even shards start from the seed inputs, odd shards from the empty corpus
            for i, s in enumerate(seeds):
                with open(os.path.join(corpus, 'seed%d' % i), 'wb') as f:
                    f.write(s)
        env = dict(os.environ, PYTHONPATH=HERE + os.pathsep + os.path.join(HERE, '.deps'), PYTHONHASHSEED='0')
        cmd = [sys.executable, '-m', 'vf.fuzzrun', pid, out, corpus, '-max_total_time=%d' % seconds,
               '-seed=%d' % (ctx.shard_seed(99) % (2 ** 31 - 1) + 1), '-max_len=512', '-timeout=20', '-rss_limit_mb=2048']
        p = subprocess.run(cmd, cwd=HERE, env=env, stdout=subprocess.DEVNULL, stderr=subprocess.PIPE, timeout=seconds + 120)
        n = 0
        try:
            n = int(open(os.path.join(out, 'executions')).read())
        except Exception:
            pass
        ctx.extra['atheris_executions'] = ctx.extra.get('atheris_executions', 0) + n
        ctx.extra['atheris_seconds'] = ctx.extra.get('atheris_seconds', 0) + seconds
        for f in glob.glob(os.path.join(out, '*.json')):
            d = json.load(open(f))
            ctx.fail(d['signature'], d['case'], d['message'])
        if p.returncode not in (0,) and n == 0:
            raise RuntimeError('atheris run failed: %s' % p.stderr.decode('utf-8', 'replace')[-800:])
        if n:
            ctx.labels['atheris'] += n
    finally:
        shutil.rmtree(tmp, ignore_errors=True)
