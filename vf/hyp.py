"""Hypothesis as a pure case generator (the oracle reports through Ctx and never raises)."""
import hypothesis
from hypothesis import given, settings, HealthCheck, Phase, strategies as st


def drive(ctx, strategy, fn, max_examples, salt=0):
    """Draw `max_examples` values from `strategy` (seeded from VERIF_SEED and the
    shard number) and call fn(value) on each."""
    if max_examples <= 0:
        return
    sett = settings(max_examples=max_examples, database=None, deadline=None,
                    derandomize=False, report_multiple_bugs=False,
                    phases=[Phase.generate],
                    suppress_health_check=list(HealthCheck),
                    verbosity=hypothesis.Verbosity.quiet)

    @hypothesis.seed(ctx.shard_seed(salt))
    @sett
    @given(strategy)
    def test(value):
        fn(value)

    test()


def run_machine(ctx, machine_cls, max_examples, steps, salt=0):
    from hypothesis.stateful import run_state_machine_as_test
    if max_examples <= 0:
        return
    sett = settings(max_examples=max_examples, stateful_step_count=steps,
                    database=None, deadline=None, derandomize=False,
                    report_multiple_bugs=False, phases=[Phase.generate],
                    suppress_health_check=list(HealthCheck),
                    verbosity=hypothesis.Verbosity.quiet)
    run_state_machine_as_test(hypothesis.seed(ctx.shard_seed(salt))(machine_cls),
                              settings=sett)
